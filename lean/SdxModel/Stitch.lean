import SdxModel.Solver
/-!
# `syndiffix/clustering/stitching.py`

Rows are lists of cells `(payload, key)`: the payload is opaque (the synthetic value), the key is the float the
stitcher sorts and splits on. The shared RNG (`forest.unsafe_rng`) is an input stream.
-/

/-- where a column of the stitched table comes from -/
structure ColumnLocation where
  source : StitchOwner          -- left only / right only / shared
  columnId : Nat
  leftIndex : Option Nat
  rightIndex : Option Nat
deriving Repr, Inhabited, BEq

section
variable {α : Type} [Add α] [Sub α] [Mul α] [Div α] [LT α] [LE α] [BEq α]
  [DecidableLT α] [DecidableLE α] [ScalarOps α] [Inhabited α]
variable {β : Type} [Inhabited β]

abbrev MRow (β α : Type) := List (β × α)

/-- insertion sort ascending, stable (`list.sort(key=...)`), by a strict order on keys -/
def insertAsc {γ : Type} (lt : γ → γ → Bool) (x : γ) : List γ → List γ
  | [] => [x]
  | y :: ys => if lt y x then y :: insertAsc lt x ys else x :: y :: ys
def sortAscStable {γ : Type} (lt : γ → γ → Bool) (l : List γ) : List γ := l.foldr (insertAsc lt) []

/-- lexicographic `<` on key lists (Python list comparison) -/
def keysLt : List α → List α → Bool
  | [], [] => false
  | [], _ :: _ => true
  | _ :: _, [] => false
  | a :: as, b :: bs => if a == b then keysLt as bs else decide (a < b)

def rowKeys (idx : List Nat) (r : MRow β α) : List α := idx.map (fun i => (r.getD i default).2)

/-- `rows.sort(key=_row_sort_key(keys))` -/
def sortRows (idx : List Nat) (rows : List (MRow β α)) : List (MRow β α) :=
  sortAscStable (fun a b => keysLt (rowKeys idx a) (rowKeys idx b)) rows

/-- `_locate_columns` -/
def locateColumns (leftComb rightComb : List Nat) : List ColumnLocation :=
  let ids := (leftComb ++ rightComb).eraseDups
  let locs := ids.map fun c =>
    let li := leftComb.idxOf? c; let ri := rightComb.idxOf? c
    ({ source := match li, ri with | some _, some _ => .shared | none, some _ => .right | _, _ => .left,
       columnId := c, leftIndex := li, rightIndex := ri } : ColumnLocation)
  sortAscStable (fun a b => decide (a.columnId < b.columnId)) locs

/-- `_merge_row` -/
def mergeRow (cols : List ColumnLocation) (pickSharedLeft : Bool) (l r : MRow β α) : MRow β α :=
  cols.map fun c =>
    let fromL := l.getD (c.leftIndex.getD 0) default
    let fromR := r.getD (c.rightIndex.getD 0) default
    match c.source with
    | .left => fromL
    | .right => fromR
    | .shared => if pickSharedLeft then fromL else fromR

/-- `_align_length` -/
def alignLength (len : Nat) (table : List (MRow β α)) : GM α (List (MRow β α)) := do
  let cur := table.length
  if len == cur then return table
  else if len < cur then return table.take len
  else
    let extra ← (List.range (len - cur)).mapM (fun _ => do
      let i ← drawInt 0 ((cur : Int) - 1)
      return table.getD i default)
    return table ++ extra

/-- `_binary_search`: first index in `[start, end)` whose key is `>= target` under the routine's own stopping rule, `-1` if none -/
def binarySearch (rows : List (MRow β α)) (col : Nat) (target : α) : Nat → Nat → Nat → Int
  | 0, _, _ => -1
  | fuel + 1, start, endEx =>
    if start ≥ endEx then -1 else
    let mid := (start + endEx) / 2
    let key (i : Nat) : α := ((rows.getD i default).getD col default).2
    if target ≤ key mid then
      if mid == 0 || decide (key (mid - 1) < target) then (mid : Int)
      else binarySearch rows col target fuel start mid
    else binarySearch rows col target fuel (mid + 1) endEx

/-- `_acceptable_distribution` -/
def acceptableDistribution (threshRel : α) (left right : Nat) : Bool :=
  let mn := min left right; let mx := max left right
  if mn == 0 then false else decide (threshRel ≤ (ofInt (Int.ofNat mn) : α) / ofInt (Int.ofNat mx))

structure StitchCtx (α : Type) where
  owner : StitchOwner
  cols : List ColumnLocation
  maxValues : List α
  isIntegral : List Bool
  leftIdx : List Nat
  rightIdx : List Nat
  threshRel : α

structure StitchState (α : Type) where
  intervals : List (Ival α)
  nextSort : Nat
  sortedBy : Option Nat
  attempts : Nat

/-- the number of rows a terminal merge produces -/
def mergeCount (owner : StitchOwner) (l r : Nat) : Nat :=
  match owner with
  | .left => l
  | .right => r
  | .shared => (ScalarOps.roundHE ((ofInt (Int.ofNat (l + r)) : α) / ofInt 2)).toNat

/-- which side provides the shared cells of result row `i` -/
def pickLeft (owner : StitchOwner) (i : Nat) : Bool :=
  match owner with
  | .shared => i % 2 == 0
  | .left => true
  | .right => false

/-- `_merge_microdata` -/
def mergeMicrodata (c : StitchCtx α) (left right : List (MRow β α)) : GM α (List (MRow β α)) := do
  if left.isEmpty || right.isEmpty then throw "value"
  let l1 ← drawShuffle left
  let l2 ← alignLength (mergeCount (α := α) c.owner left.length right.length) l1
  let r1 ← drawShuffle right
  let r2 ← alignLength (mergeCount (α := α) c.owner left.length right.length) r1
  return (List.range (mergeCount (α := α) c.owner left.length right.length)).map fun i =>
    mergeRow c.cols (pickLeft c.owner i) ((sortRows c.leftIdx l2).getD i []) ((sortRows c.rightIdx r2).getD i [])

/-- `_can_split` -/
def canSplit (c : StitchCtx α) (st : StitchState α) : Bool :=
  if c.isIntegral.getD st.nextSort false then
    let iv := st.intervals.getD st.nextSort default
    if c.maxValues.getD st.nextSort default == iv.hi then decide (ofInt 1 ≤ iv.size) else decide (ofInt 1 < iv.size)
  else true

def setAt {γ : Type} (l : List γ) (i : Nat) (v : γ) : List γ := l.set i v

/-- both tables sorted by the current split column unless they already are -/
def presort (c : StitchCtx α) (st : StitchState α) (left right : List (MRow β α)) : List (MRow β α) × List (MRow β α) :=
  if st.sortedBy != some st.nextSort then
    (sortRows [c.leftIdx.getD st.nextSort 0] left, sortRows [c.rightIdx.getD st.nextSort 0] right)
  else (left, right)

/-- the split attempt of `_stitch_rec` on tables sorted by the split column; `recur` is the recursive call -/
def stitchSplit (c : StitchCtx α)
    (recur : StitchState α → List (MRow β α) → List (MRow β α) → GM α (List (MRow β α)))
    (st : StitchState α) (left right : List (MRow β α)) : GM α (List (MRow β α)) :=
  let k := c.isIntegral.length
  let col := st.nextSort
  let li := c.leftIdx.getD col 0; let ri := c.rightIdx.getD col 0
  let iv := st.intervals.getD col default
  let mid := iv.middle
  let lsp := (max 0 (binarySearch left li mid (left.length + 2) 0 left.length)).toNat
  let rsp := (max 0 (binarySearch right ri mid (right.length + 2) 0 right.length)).toNat
  if acceptableDistribution c.threshRel (left.take lsp).length (right.take rsp).length &&
     acceptableDistribution c.threshRel (left.drop lsp).length (right.drop rsp).length then do
    let lower ← recur ⟨setAt st.intervals col iv.lowerHalf, (col + 1) % k, some col, k⟩ (left.take lsp) (right.take rsp)
    let upper ← recur ⟨setAt st.intervals col iv.upperHalf, (col + 1) % k, some col, k⟩ (left.drop lsp) (right.drop rsp)
    pure (lower ++ upper)
  else
    recur ⟨(if (left.take lsp).isEmpty && (right.take rsp).isEmpty then setAt st.intervals col iv.upperHalf
            else if (left.drop lsp).isEmpty && (right.drop rsp).isEmpty then setAt st.intervals col iv.lowerHalf else st.intervals),
           (col + 1) % k, some col, st.attempts - 1⟩ left right

/-- `_stitch_rec` -/
def stitchRec (c : StitchCtx α) : Nat → StitchState α → List (MRow β α) → List (MRow β α) → GM α (List (MRow β α))
  | 0, _, _, _ => throw "fuel"
  | fuel + 1, st, left, right =>
    if st.attempts == 0 || left.length == 1 || right.length == 1 then mergeMicrodata c left right
    else if canSplit c st then
      stitchSplit c (stitchRec c fuel) st (presort c st left right).1 (presort c st left right).2
    else stitchRec c fuel { st with nextSort := (st.nextSort + 1) % c.isIntegral.length, attempts := st.attempts - 1 } left right

/-- a microtable: rows and the (global) column ids of its columns -/
abbrev MTable (β α : Type) := List (MRow β α) × List Nat

/-- `_do_stitch` -/
def doStitch (snapped : List (Ival α)) (isIntegral : List Bool) (entropy : List α) (threshRel : α)
    (left right : MTable β α) (dc : DerivedCluster) : GM α (MTable β α) := do
  if left.2.isEmpty || dc.stitch.isEmpty || dc.derived.isEmpty then throw "value"
  let stitchCols := sortAscStable (fun a b =>
    let ea := entropy.getD a default; let eb := entropy.getD b default
    if ea == eb then decide (a < b) else decide (ea < eb)) dc.stitch
  let cols := locateColumns left.2 right.2
  let outCols := cols.map (·.columnId)
  if left.1.isEmpty && right.1.isEmpty then return ([], outCols)
  if right.1.isEmpty then throw "value"
  let roots := stitchCols.map (fun c => snapped.getD c default)
  match stitchCols.mapM (fun c => left.2.idxOf? c), stitchCols.mapM (fun c => right.2.idxOf? c) with
  | some li, some ri =>
    let ctx : StitchCtx α := ⟨dc.owner, cols, roots.map (fun r => r.hi), stitchCols.map (fun c => isIntegral.getD c false), li, ri, threshRel⟩
    let rows ← stitchRec ctx 100000 ⟨roots, 0, none, stitchCols.length⟩ left.1 right.1
    return (rows, outCols)
  | _, _ => throw "value"        -- `superset.index(c)`: a stitch column missing on one side

/-- `_do_patch` -/
def doPatch (left right : MTable β α) : GM α (MTable β α) := do
  let cols := locateColumns left.2 right.2
  let n := left.1.length
  let r1 ← drawShuffle right.1
  if n > r1.length && r1.isEmpty then throw "value"       -- `randint(0, -1)`
  let r2 ← alignLength n r1
  return ((List.zip left.1 r2).map (fun (l, r) => mergeRow cols true l r), cols.map (·.columnId))

end
