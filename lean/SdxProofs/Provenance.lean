import SdxProofs.HarvestLemmas
set_option linter.unusedSectionVars false
set_option linter.unusedVariables false
/-!
# Where the ranges of a bucket come from

Every range of every cell ever created by a harvest is the released range (`bucket_intervals`) of a node that is a
branch or a leaf passing the low-count filter — a node of the harvested tree or of one of the lower-dimensional trees
reachable through sub-nodes — for the very column the range is released for.
-/

section
variable {α : Type} [Field α] [LinearOrder α] [IsStrictOrderedRing α] [FloorRing α] [Inhabited α]

/-- nodes reachable from `root` through children and sub-nodes -/
inductive Reach (root : Node α) : Node α → Prop
  | refl : Reach root root
  | child (d : NodeData α) (s : List (Option (Node α))) (ch : List (Nat × Node α)) (p : Nat × Node α) :
      Reach root (.branch d s ch) → p ∈ ch → Reach root p.2
  | sub (n m : Node α) : Reach root n → some m ∈ n.subnodes → Reach root m

/-- a node whose range may be released: a branch (it was split, so it passed the filter then and entities only
accumulate), or a leaf that passes the filter now -/
def Releasable (E : Env α) (c : FCtx α) (m : Node α) : Prop :=
  m.isLeaf = true → m.overThreshold E c c.ap.supp.lt = true

/-- one range of a cell is the released range of a releasable reachable node, for the same column -/
def RangeOK (E : Env α) (c : FCtx α) (root : Node α) (col : Nat) (iv : Ival α) : Prop :=
  ∃ m j, Reach root m ∧ Releasable E c m ∧ j < m.bucketIntervals.length ∧ j < m.data.comb.length ∧
    iv = m.bucketIntervals.getD j default ∧ m.data.comb.getD j 0 = col

/-- a cell: as many ranges as its owner has columns, each range accounted for -/
def CellOK (E : Env α) (c : FCtx α) (root : Node α) (ivs : List (Ival α)) (owner : NodeKey) : Prop :=
  ivs.length = owner.1.length ∧ ∀ pos < ivs.length, RangeOK E c root (owner.1.getD pos 0) (ivs.getD pos default)

/-- every position of a node's own released ranges is accounted for by the node itself -/
theorem CellOK.self (E : Env α) (c : FCtx α) (root n : Node α) (hr : Reach root n) (hrel : Releasable E c n)
    (hlen : n.bucketIntervals.length = n.data.comb.length) : CellOK E c root n.bucketIntervals (nodeKey n) := by
  refine ⟨hlen, fun pos hpos => ⟨n, pos, hr, hrel, hpos, by rw [← hlen]; exact hpos, rfl, rfl⟩⟩

theorem lookupRun_mem {β : Type} : ∀ (l : List (β × Int)) (i : Nat) (x : β), lookupRun l i = some x → ∃ c, (x, c) ∈ l := by
  intro l
  induction l with
  | nil => intro i x h; simp [lookupRun] at h
  | cons p rest ih =>
    intro i x h
    obtain ⟨y, c⟩ := p
    unfold lookupRun at h
    split_ifs at h
    · simp only [Option.some.injEq] at h; subst h; exact ⟨c, by simp⟩
    · obtain ⟨c', hc'⟩ := ih _ x h
      exact ⟨c', by simp [hc']⟩

end
