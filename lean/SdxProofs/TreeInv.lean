import SdxProofs.TreeInduction
import SdxProofs.TreeLemmas
import SdxProofs.Field
import Mathlib.Data.List.Perm.Subperm
set_option linter.unusedSectionVars false
set_option linter.unusedVariables false
/-!
# The global invariant of a tree built by `add_row`

`TInv E c root t` says, for every node of `t` at once: lengths agree; child ranges are the halves selected by the
child's key and keys are unique; every row sits under the child its values route to; every row that lies in the
root range lies in the range of every node above it (lower end closed, upper end open unless it still is the
root's upper end); the tight range of a node is the hull of the values of the rows it holds; the stub flag is the
one computed from the sub-nodes; the entity counter is the counter of the rows held; a branch is no stub, no
single point, and passed the low-count filter on rows it (still) holds when it was split.

`addRow_inv` shows that `add_row` preserves it, keeps the node's identity and adds exactly the new row.
-/

section
variable {α : Type} [Field α] [LinearOrder α] [IsStrictOrderedRing α] [FloorRing α] [Inhabited α]

/-- `v` lies in `iv` the way the router sees it: lower end closed, upper end open unless still the root's upper end -/
def Ival.holds (root iv : Ival α) (v : α) : Prop := iv.lo ≤ v ∧ v ≤ iv.hi ∧ (v = iv.hi → iv.hi = root.hi)

/-- containment is only claimed for values inside the (closed) root range -/
def InRel (root iv : Ival α) (v : α) : Prop := (root.lo ≤ v ∧ v ≤ root.hi) → Ival.holds root iv v

theorem half_holds (root iv : Ival α) (v : α) (h : Ival.holds root iv v) :
    Ival.holds root (iv.half (iv.halfIndex v)) v := by
  obtain ⟨h1, h2, h3⟩ := h
  by_cases hs : iv.lo = iv.hi
  · have hb : (iv.lo == iv.hi) = true := by simpa using hs
    simp only [Ival.halfIndex, Ival.isSing, hb, Bool.true_or, if_true, Ival.half, Ival.lowerHalf, Ival.middle, Ival.holds]
    refine ⟨h1, by rw [hs]; exact h2, fun hv => ?_⟩
    rw [hs]; exact h3 (by rw [hv, hs])
  · have hb : (iv.lo == iv.hi) = false := by simpa using hs
    by_cases hm : v < (iv.lo + iv.hi) / 2
    · simp only [Ival.halfIndex, Ival.isSing, hb, Ival.middle, ofInt_eq, Bool.false_or, Bool.false_eq_true, if_false,
        Int.cast_ofNat, hm, decide_true, if_true, Ival.half, Ival.lowerHalf, Ival.holds]
      exact ⟨h1, le_of_lt hm, fun hv => absurd hv (ne_of_lt hm)⟩
    · simp only [Ival.halfIndex, Ival.isSing, hb, Ival.middle, ofInt_eq, Bool.false_or, Bool.false_eq_true, if_false,
        Int.cast_ofNat, hm, decide_false, Ival.half, Ival.upperHalf, Ival.holds]
      norm_num
      exact ⟨not_lt.mp hm, h2, h3⟩

/-- `iv` is the hull of the values `vs` -/
def HullOf (iv : Ival α) (vs : List α) : Prop := (∀ v ∈ vs, iv.lo ≤ v ∧ v ≤ iv.hi) ∧ iv.lo ∈ vs ∧ iv.hi ∈ vs

theorem HullOf.lo_le_hi {iv : Ival α} {vs : List α} (h : HullOf iv vs) : iv.lo ≤ iv.hi := (h.1 _ h.2.2).1

theorem HullOf.congr {iv : Ival α} {vs vs' : List α} (h : HullOf iv vs) (he : ∀ x, x ∈ vs' ↔ x ∈ vs) : HullOf iv vs' :=
  ⟨fun v hv => h.1 v ((he v).mp hv), (he _).mpr h.2.1, (he _).mpr h.2.2⟩

theorem HullOf.single (v : α) : HullOf ⟨v, v⟩ [v] := by simp [HullOf]

theorem HullOf.expand {iv : Ival α} {vs vs' : List α} (v : α) (h : HullOf iv vs) (he : ∀ x, x ∈ vs' ↔ x ∈ vs ∨ x = v) :
    HullOf (iv.expand v) vs' := by
  have hle := h.lo_le_hi
  unfold Ival.expand
  split_ifs with h1 h2
  · refine ⟨fun x hx => ?_, (he _).mpr (Or.inl h.2.1), (he _).mpr (Or.inr rfl)⟩
    rcases (he x).mp hx with hx | rfl
    · exact ⟨(h.1 x hx).1, le_trans (h.1 x hx).2 (le_of_lt h1)⟩
    · exact ⟨le_trans hle (le_of_lt h1), le_refl _⟩
  · refine ⟨fun x hx => ?_, (he _).mpr (Or.inr rfl), (he _).mpr (Or.inl h.2.2)⟩
    rcases (he x).mp hx with hx | rfl
    · exact ⟨le_trans (le_of_lt h2) (h.1 x hx).1, (h.1 x hx).2⟩
    · exact ⟨le_refl _, le_trans (le_of_lt h2) hle⟩
  · refine ⟨fun x hx => ?_, (he _).mpr (Or.inl h.2.1), (he _).mpr (Or.inl h.2.2)⟩
    rcases (he x).mp hx with hx | rfl
    · exact h.1 x hx
    · exact ⟨not_lt.mp h2, not_lt.mp h1⟩

theorem expand_not_sing {iv : Ival α} (v : α) (hle : iv.lo ≤ iv.hi) (h : iv.isSing = false) : (iv.expand v).isSing = false := by
  have hne : iv.lo ≠ iv.hi := by simpa [Ival.isSing] using h
  have hlt : iv.lo < iv.hi := lt_of_le_of_ne hle hne
  unfold Ival.expand
  split_ifs with h1 h2
  · simpa [Ival.isSing] using ne_of_lt (lt_trans hlt h1)
  · simpa [Ival.isSing] using ne_of_lt (lt_trans h2 hlt)
  · exact h


/-- what the row's values must satisfy to be handed to a node with data `d` -/
def RowInside (c : FCtx α) (root : List (Ival α)) (d : NodeData α) (row : Nat) : Prop :=
  ∀ j < d.comb.length, InRel (root.getD j default) (d.snapped.getD j default) (c.value row (d.comb.getD j 0))

/-- the ranges of the child stored under key `idx` -/
noncomputable def childRanges (d : NodeData α) (idx : Nat) : List (Ival α) :=
  (List.zip (List.range d.comb.length) d.snapped).map (fun q => q.2.half ((idx / 2 ^ (d.comb.length - 1 - q.1)) % 2))

/-- the sub-nodes handed to a node are nodes of the lower-dimensional trees with one dimension removed: sub-node `k`
lacks dimension `dims-1-k` (the order of `generate_combinations(dims-1, dims)`) and carries the node's ranges in the
remaining dimensions -/
def SubsC (comb : List Nat) (snapped : List (Ival α)) (subs : List (Option (Node α))) : Prop :=
  ∀ (k : Nat) (s : Node α), subs[k]? = some (some s) → k < comb.length ∧ s.data.comb = comb.eraseIdx (comb.length - 1 - k) ∧
    s.data.snapped = snapped.eraseIdx (comb.length - 1 - k)

/-- the purely structural part of the invariant, for a tree and (recursively) for all its sub-nodes -/
inductive Shape : Node α → Prop
  | leaf (d : NodeData α) (subs : List (Option (Node α))) (rows : List Nat) :
      (d.snapped.length = d.comb.length ∧ d.actual.length = d.comb.length ∧ (2 ≤ d.comb.length → subs.length = d.comb.length)) →
      SubsC d.comb d.snapped subs →
      (∀ (k : Nat) (s : Node α), subs[k]? = some (some s) → Shape s) → Shape (.leaf d subs rows)
  | branch (d : NodeData α) (subs : List (Option (Node α))) (ch : List (Nat × Node α)) :
      (d.snapped.length = d.comb.length ∧ d.actual.length = d.comb.length ∧ (2 ≤ d.comb.length → subs.length = d.comb.length)) →
      SubsC d.comb d.snapped subs →
      (∀ (k : Nat) (s : Node α), subs[k]? = some (some s) → Shape s) → (ch.map (·.1)).Nodup →
      (∀ p ∈ ch, p.2.data.comb = d.comb ∧ p.2.data.path = d.path ++ [p.1] ∧ p.2.data.snapped = childRanges d p.1) →
      (∀ p ∈ ch, Shape p.2) → Shape (.branch d subs ch)

/-- sub-nodes are the right projections, and are themselves well-shaped -/
def SubsOK (comb : List Nat) (snapped : List (Ival α)) (subs : List (Option (Node α))) : Prop :=
  SubsC comb snapped subs ∧ (∀ (k : Nat) (s : Node α), subs[k]? = some (some s) → Shape s) ∧
    (2 ≤ comb.length → subs.length = comb.length)

/-- the part of the invariant every node carries: `all` are the rows held, `hullRows` the rows the tight range spans -/
structure NodeOK (E : Env α) (c : FCtx α) (root : List (Ival α)) (d : NodeData α) (subs : List (Option (Node α)))
    (all hullRows : List Nat) : Prop where
  lenS : d.snapped.length = d.comb.length
  lenA : d.actual.length = d.comb.length
  nonempty : hullRows ≠ []
  inside : ∀ r ∈ all, RowInside c root d r
  hull : ∀ j < d.comb.length, HullOf (d.actual.getD j default) (hullRows.map fun r => c.value r (d.comb.getD j 0))
  stub : d.isStub = stubFlag E c subs
  counter : ∃ hist : List Nat, hist.Perm all ∧ d.counter = c.kind.newEntity.addMany (hist.map c.pidRow)
  subsOK : SubsOK d.comb d.snapped subs

/-- what a branch carries on top -/
structure BranchOK (E : Env α) (c : FCtx α) (d : NodeData α) (subs : List (Option (Node α)))
    (ch : List (Nat × Node α)) (hullRows : List Nat) : Prop where
  keys : (ch.map (·.1)).Nodup
  child : ∀ p ∈ ch, p.2.data.comb = d.comb ∧ p.2.data.path = d.path ++ [p.1] ∧ p.2.data.baseSeed = d.baseSeed ∧
    p.2.data.snapped = childRanges d p.1
  route : ∀ p ∈ ch, ∀ r ∈ p.2.allRows, childIndex d.snapped (c.vals d.comb r) = p.1
  notStub : d.isStub = false
  notSing : d.actual.all Ival.isSing = false
  licence : ∃ h0 : List Nat, h0.Subperm hullRows ∧
    (c.kind.newEntity.addMany (h0.map c.pidRow)).isLowCount E c.ap.salt c.ap.supp = false

/-- the invariant; `extra` are rows the node's tight range already spans but which are not (yet) held below it —
empty except while a freshly split leaf re-inserts its rows -/
inductive TInvX (E : Env α) (c : FCtx α) (root : List (Ival α)) : List Nat → Node α → Prop
  | leaf (extra : List Nat) (d : NodeData α) (subs : List (Option (Node α))) (rows : List Nat) :
      NodeOK E c root d subs rows (extra ++ rows) → TInvX E c root extra (.leaf d subs rows)
  | branch (extra : List Nat) (d : NodeData α) (subs : List (Option (Node α))) (ch : List (Nat × Node α)) :
      NodeOK E c root d subs (Node.allRows (.branch d subs ch)) (extra ++ Node.allRows (.branch d subs ch)) →
      BranchOK E c d subs ch (extra ++ Node.allRows (.branch d subs ch)) →
      (∀ p ∈ ch, TInvX E c root [] p.2) → TInvX E c root extra (.branch d subs ch)

/-- the invariant of a finished tree -/
def TInv (E : Env α) (c : FCtx α) (root : List (Ival α)) (t : Node α) : Prop := TInvX E c root [] t

/-- `add_row` keeps a node's identity -/
def SameId (t t' : Node α) : Prop :=
  t'.data.comb = t.data.comb ∧ t'.data.path = t.data.path ∧ t'.data.baseSeed = t.data.baseSeed ∧
  t'.data.snapped = t.data.snapped ∧ t'.subnodes = t.subnodes

theorem vals_getD (c : FCtx α) (comb : List Nat) (row j : Nat) (hj : j < comb.length) :
    (c.vals comb row).getD j default = c.value row (comb.getD j 0) := by
  simp [FCtx.vals, List.getD_eq_getElem?_getD, hj]

theorem updData_actual_getD (c : FCtx α) (d : NodeData α) (row j : Nat) (hA : d.actual.length = d.comb.length)
    (hj : j < d.comb.length) :
    (updData c d row).actual.getD j default = (d.actual.getD j default).expand (c.value row (d.comb.getD j 0)) := by
  have hv : j < (c.vals d.comb row).length := by simp [FCtx.vals, hj]
  have ha : j < d.actual.length := by rw [hA]; exact hj
  rw [← vals_getD c d.comb row j hj]
  simp [updData, List.getD_eq_getElem?_getD, List.getElem?_zipWith, ha, hv]

/-- updating a node's data for a new row -/
theorem NodeOK.update {E : Env α} {c : FCtx α} {root : List (Ival α)} {d : NodeData α} {subs : List (Option (Node α))}
    {all extra all' extra' : List Nat} (row : Nat)
    (h : NodeOK E c root d subs all (extra ++ all)) (hr : RowInside c root d row)
    (hp : all'.Perm (all ++ [row]))
    (hex : ∀ x, x ∈ extra' ++ all' ↔ (x ∈ extra ++ all ∨ x = row)) :
    NodeOK E c root (updData c d row) subs all' (extra' ++ all') := by
  refine ⟨h.lenS, ?_, ?_, ?_, ?_, h.stub, ?_, h.subsOK⟩
  · simp [updData, FCtx.vals, h.lenA]
  · intro he
    have := (hex row).mpr (Or.inr rfl)
    rw [he] at this; cases this
  · intro r hr'
    have : r ∈ all ++ [row] := hp.subset hr'
    rcases List.mem_append.mp this with hm | hm
    · exact h.inside r hm
    · rw [List.mem_singleton.mp hm]; exact hr
  · intro j hj
    rw [updData_actual_getD c d row j h.lenA hj]
    refine HullOf.expand _ (h.hull j hj) ?_
    intro x
    simp only [List.mem_map]
    constructor
    · rintro ⟨r, hr', rfl⟩
      rcases (hex r).mp hr' with hm | rfl
      · exact Or.inl ⟨r, hm, rfl⟩
      · exact Or.inr rfl
    · rintro (⟨r, hm, rfl⟩ | rfl)
      · exact ⟨r, (hex r).mpr (Or.inl hm), rfl⟩
      · exact ⟨row, (hex row).mpr (Or.inr rfl), rfl⟩
  · obtain ⟨hist, hperm, hc⟩ := h.counter
    refine ⟨hist ++ [row], ?_, ?_⟩
    · exact (hperm.append_right [row]).trans hp.symm
    · simp [updData, hc, ECounter.addMany, List.foldl_append]


theorem childIndex_bit_getD (c : FCtx α) (d : NodeData α) (row j : Nat) (hS : d.snapped.length = d.comb.length)
    (hj : j < d.comb.length) :
    (childIndex d.snapped (c.vals d.comb row) / 2 ^ (d.comb.length - 1 - j)) % 2
      = (d.snapped.getD j default).halfIndex (c.value row (d.comb.getD j 0)) := by
  have hl : d.snapped.length = (c.vals d.comb row).length := by simp [FCtx.vals, hS]
  have hjs : j < d.snapped.length := by rw [hS]; exact hj
  have := childIndex_bit d.snapped (c.vals d.comb row) hl j hjs
  rw [← hS, this, ← vals_getD c d.comb row j hj]
  have hjv : j < (c.vals d.comb row).length := by rw [← hl]; exact hjs
  simp [List.getD_eq_getElem?_getD, hjs, hjv]

theorem childRanges_getD (d : NodeData α) (idx j : Nat) (hS : d.snapped.length = d.comb.length) (hj : j < d.comb.length) :
    (childRanges d idx).getD j default = (d.snapped.getD j default).half ((idx / 2 ^ (d.comb.length - 1 - j)) % 2) := by
  have hjs : j < d.snapped.length := by rw [hS]; exact hj
  simp [childRanges, List.getD_eq_getElem?_getD, hjs, hj]

/-- a row handed to a branch may be handed on to the child it routes to -/
theorem rowInside_child (c : FCtx α) (root : List (Ival α)) (d d' : NodeData α) (row : Nat)
    (hS : d.snapped.length = d.comb.length) (hr : RowInside c root d row) (hc : d'.comb = d.comb)
    (hs : d'.snapped = childRanges d (childIndex d.snapped (c.vals d.comb row))) : RowInside c root d' row := by
  intro j hj hroot
  rw [hc] at hj hroot
  rw [hs, hc, childRanges_getD d _ j hS hj, childIndex_bit_getD c d row j hS hj]
  exact half_holds _ _ _ (hr j hj hroot)


theorem bit_removeDim (k idx p : Nat) :
    (removeDim k idx / 2 ^ p) % 2 = (idx / 2 ^ (if p < k then p else p + 1)) % 2 := by
  have h := removeDim_testBit k idx p
  rw [Nat.testBit_eq_decide_div_mod_eq, Nat.testBit_eq_decide_div_mod_eq] at h
  have h1 : (removeDim k idx / 2 ^ p) % 2 < 2 := Nat.mod_lt _ (by norm_num)
  have h2 : (idx / 2 ^ (if p < k then p else p + 1)) % 2 < 2 := Nat.mod_lt _ (by norm_num)
  have h3 : ((removeDim k idx / 2 ^ p) % 2 = 1) ↔ ((idx / 2 ^ (if p < k then p else p + 1)) % 2 = 1) := by
    simpa using h
  omega

theorem childRanges_getElem? (d : NodeData α) (idx j : Nat) (hS : d.snapped.length = d.comb.length) :
    (childRanges d idx)[j]? = (d.snapped[j]?).map (fun iv => iv.half ((idx / 2 ^ (d.comb.length - 1 - j)) % 2)) := by
  unfold childRanges
  rw [List.getElem?_map]
  by_cases hj : j < d.snapped.length
  · have hj' : j < d.comb.length := by rw [← hS]; exact hj
    simp [hj, hj']
  · have : d.snapped[j]? = none := by simp; omega
    simp [this]; omega

/-- the child of sub-node `k` under the key with bit `k` removed has the child's ranges with that dimension removed -/
theorem childRanges_erase (d ds : NodeData α) (idx k : Nat) (hS : d.snapped.length = d.comb.length)
    (hk : k < d.comb.length) (hc : ds.comb = d.comb.eraseIdx (d.comb.length - 1 - k))
    (hs : ds.snapped = d.snapped.eraseIdx (d.comb.length - 1 - k)) :
    childRanges ds (removeDim k idx) = (childRanges d idx).eraseIdx (d.comb.length - 1 - k) := by
  have hSs : ds.snapped.length = ds.comb.length := by
    rw [hs, hc, List.length_eraseIdx, List.length_eraseIdx, hS]
  have hn' : ds.comb.length = d.comb.length - 1 := by
    rw [hc, List.length_eraseIdx]; simp; omega
  apply List.ext_getElem?
  intro j
  rw [childRanges_getElem? ds _ j hSs, List.getElem?_eraseIdx, hs, List.getElem?_eraseIdx, hn']
  by_cases hj : j < d.comb.length - 1 - k
  · rw [if_pos hj, if_pos hj, childRanges_getElem? d idx j hS]
    cases d.snapped[j]? with
    | none => rfl
    | some iv =>
      simp only [Option.map_some, Option.some.injEq]
      rw [bit_removeDim]
      have e : (if d.comb.length - 1 - 1 - j < k then d.comb.length - 1 - 1 - j else d.comb.length - 1 - 1 - j + 1)
          = d.comb.length - 1 - j := by
        have : ¬ (d.comb.length - 1 - 1 - j < k) := by omega
        rw [if_neg this]; omega
      rw [e]
  · rw [if_neg hj, if_neg hj, childRanges_getElem? d idx (j + 1) hS]
    cases hsn : d.snapped[j + 1]? with
    | none => rfl
    | some iv =>
      simp only [Option.map_some, Option.some.injEq]
      have hj1 : j + 1 < d.comb.length := by
        rw [← hS]; exact (List.getElem?_eq_some_iff.mp hsn).1
      rw [bit_removeDim]
      have e : (if d.comb.length - 1 - 1 - j < k then d.comb.length - 1 - 1 - j else d.comb.length - 1 - 1 - j + 1)
          = d.comb.length - 1 - (j + 1) := by
        have : d.comb.length - 1 - 1 - j < k := by omega
        rw [if_pos this]; omega
      rw [e]

theorem lookupChild_mem {ch : List (Nat × Node α)} {k : Nat} {n : Node α} (h : lookupChild ch k = some n) : (k, n) ∈ ch := by
  simp only [lookupChild, Option.map_eq_some_iff] at h
  obtain ⟨p, hp, rfl⟩ := h
  have h1 := List.mem_of_find?_eq_some hp
  have h2 := List.find?_some hp
  have : p.1 = k := by simpa using h2
  rw [← this]; exact h1

/-- the sub-nodes `_create_child_leaf` hands to a new child are the right projections of the child -/
theorem createChild_subs (d : NodeData α) (subs : List (Option (Node α))) (idx : Nat) (hS : d.snapped.length = d.comb.length)
    (h : SubsOK d.comb d.snapped subs) :
    SubsOK d.comb (childRanges d idx)
      ((List.zip (List.range subs.length) subs).map (fun (k, s) => childOfSub s (removeDim k idx))) := by
  have key : ∀ (k : Nat) (s' : Node α),
      ((List.zip (List.range subs.length) subs).map (fun (k, s) => childOfSub s (removeDim k idx)))[k]? = some (some s') →
      ∃ ds ss chs, subs[k]? = some (some (.branch ds ss chs)) ∧ (removeDim k idx, s') ∈ chs := by
    intro k s' hk
    rw [List.getElem?_map] at hk
    cases hz : (List.zip (List.range subs.length) subs)[k]? with
    | none => rw [hz] at hk; simp at hk
    | some pr =>
      rw [hz] at hk
      simp only [Option.map_some, Option.some.injEq] at hk
      rw [List.getElem?_zip_eq_some] at hz
      obtain ⟨hz1, hz2⟩ := hz
      have hk1 : pr.1 = k := by
        have := (List.getElem?_eq_some_iff.mp hz1).2
        simpa using this.symm
      obtain ⟨k', sk⟩ := pr
      simp only at hk1 hz2 hk
      subst hk1
      unfold childOfSub at hk
      split at hk
      · rename_i ds ss chs
        exact ⟨ds, ss, chs, hz2, lookupChild_mem hk⟩
      · cases hk
  refine ⟨?_, ?_, ?_⟩
  · intro k s' hk
    obtain ⟨ds, ss, chs, hsub, hmem⟩ := key k s' hk
    obtain ⟨hkl, hc, hs⟩ := h.1 k _ hsub
    have hsh := h.2.1 k _ hsub
    cases hsh with
    | branch _ _ _ hSs _ _ _ hchild _ =>
      obtain ⟨c1, _, c3⟩ := hchild _ hmem
      refine ⟨hkl, c1.trans hc, ?_⟩
      rw [c3]
      exact childRanges_erase d ds idx k hS hkl hc hs
  · intro k s' hk
    obtain ⟨ds, ss, chs, hsub, hmem⟩ := key k s' hk
    have hsh := h.2.1 k _ hsub
    cases hsh with
    | branch _ _ _ _ _ _ _ _ hC => exact hC _ hmem
  · intro h2
    simp only [List.length_map, List.length_zip, List.length_range, Nat.min_self]
    exact h.2.2 h2

theorem subsOK_nil {comb : List Nat} {snapped : List (Ival α)} (hc : comb.length ≤ 1) :
    SubsOK comb snapped ([] : List (Option (Node α))) :=
  ⟨fun k s h => by simp at h, fun k s h => by simp at h, fun h => by omega⟩

/-- a fresh leaf for a row that lies inside the leaf's ranges satisfies the invariant -/
theorem mkLeaf_ok (E : Env α) (c : FCtx α) (root : List (Ival α)) (comb path : List Nat) (seed : UInt64)
    (subs : List (Option (Node α))) (snapped : List (Ival α)) (row : Nat) (hS : snapped.length = comb.length)
    (hr : ∀ j < comb.length, InRel (root.getD j default) (snapped.getD j default) (c.value row (comb.getD j 0)))
    (hsub : SubsOK comb snapped subs) :
    TInvX E c root [] (mkLeaf E c comb path seed subs snapped row) := by
  unfold mkLeaf
  apply TInvX.leaf
  refine ⟨hS, ?_, by simp, ?_, ?_, rfl, ⟨[row], List.Perm.refl _, rfl⟩, hsub⟩
  · simp [FCtx.vals]
  · intro r hr'
    rw [List.mem_singleton.mp hr']
    exact hr
  · intro j hj
    have hj' : j < comb.length := hj
    have : ((c.vals comb row).map (fun v => (⟨v, v⟩ : Ival α))).getD j default
        = ⟨c.value row (comb.getD j 0), c.value row (comb.getD j 0)⟩ := by
      rw [← vals_getD c comb row j hj']
      have hjv : j < (c.vals comb row).length := by simp [FCtx.vals, hj']
      simp [List.getD_eq_getElem?_getD, hjv]
    simp only [List.nil_append, List.map_cons, List.map_nil]
    rw [this]
    exact HullOf.single _

/-- the leaf created for a row that finds no child satisfies the invariant -/
theorem createChild_ok (E : Env α) (c : FCtx α) (root : List (Ival α)) (d : NodeData α) (subs : List (Option (Node α)))
    (row : Nat) (hS : d.snapped.length = d.comb.length) (hr : RowInside c root d row) (hsub : SubsOK d.comb d.snapped subs) :
    TInvX E c root [] (createChild E c d subs (childIndex d.snapped (c.vals d.comb row)) row) := by
  unfold createChild
  apply mkLeaf_ok
  · simp [hS]
  · exact rowInside_child c root d ⟨d.comb, d.path ++ [childIndex d.snapped (c.vals d.comb row)], d.baseSeed,
      childRanges d (childIndex d.snapped (c.vals d.comb row)), [], false, default⟩ row hS hr rfl rfl
  · exact createChild_subs d subs _ hS hsub

theorem SameId.refl (t : Node α) : SameId t t := ⟨rfl, rfl, rfl, rfl, rfl⟩
theorem SameId.trans {a b c : Node α} (h1 : SameId a b) (h2 : SameId b c) : SameId a c :=
  ⟨h2.1.trans h1.1, h2.2.1.trans h1.2.1, h2.2.2.1.trans h1.2.2.1, h2.2.2.2.1.trans h1.2.2.2.1, h2.2.2.2.2.trans h1.2.2.2.2⟩

theorem allRows_split (pre post : List (Nat × Node α)) (q : Nat × Node α) (d : NodeData α) (s : List (Option (Node α))) :
    (Node.branch d s (pre ++ q :: post)).allRows =
      (pre.map (fun p => p.2.allRows)).flatten ++ q.2.allRows ++ (post.map (fun p => p.2.allRows)).flatten := by
  simp [Node.allRows_branch]

theorem mem_allRows_of_child (d : NodeData α) (s : List (Option (Node α))) (ch : List (Nat × Node α)) (p : Nat × Node α)
    (hp : p ∈ ch) (r : Nat) (hr : r ∈ p.2.allRows) : r ∈ (Node.branch d s ch).allRows := by
  rw [Node.allRows_branch, List.mem_flatten]
  exact ⟨p.2.allRows, List.mem_map.mpr ⟨p, hp, rfl⟩, hr⟩

theorem notSing_update (c : FCtx α) (d : NodeData α) (row : Nat) (hA : d.actual.length = d.comb.length)
    (hle : ∀ j < d.comb.length, (d.actual.getD j default).lo ≤ (d.actual.getD j default).hi)
    (h : d.actual.all Ival.isSing = false) : (updData c d row).actual.all Ival.isSing = false := by
  rw [List.all_eq_false] at h ⊢
  obtain ⟨iv, hmem, hns⟩ := h
  obtain ⟨j, hj, rfl⟩ := List.mem_iff_getElem.mp hmem
  have hjc : j < d.comb.length := by rw [← hA]; exact hj
  have hlen : (updData c d row).actual.length = d.comb.length := by simp [updData, FCtx.vals, hA]
  have hj' : j < (updData c d row).actual.length := by rw [hlen]; exact hjc
  refine ⟨(updData c d row).actual[j], List.getElem_mem hj', ?_⟩
  have e1 : (updData c d row).actual[j] = (updData c d row).actual.getD j default := by
    simp [List.getD_eq_getElem?_getD, hj']
  have e2 : d.actual[j] = d.actual.getD j default := by simp [List.getD_eq_getElem?_getD, hj]
  rw [e1, updData_actual_getD c d row j hA hjc]
  have := expand_not_sing (c.value row (d.comb.getD j 0)) (hle j hjc) (by rw [← e2]; simpa using hns)
  rw [this]; simp

/-- `add_row` preserves the invariant, adds exactly the new row and keeps the node's identity. -/
theorem addRow_invX (E : Env α) (c : FCtx α) (rl : Int) (root : List (Ival α)) :
    ∀ (fuel depth : Nat) (t : Node α) (row : Nat) (t' : Node α) (extra extra' : List Nat),
      TInvX E c root extra t → RowInside c root t.data row →
      (∀ x, x ∈ extra' ++ (t.allRows ++ [row]) ↔ (x ∈ extra ++ t.allRows ∨ x = row)) →
      (extra ++ t.allRows).Subperm (extra' ++ (t.allRows ++ [row])) →
      addRow E c rl fuel depth t row = some t' →
      TInvX E c root extra' t' ∧ t'.allRows.Perm (t.allRows ++ [row]) ∧ SameId t t' := by
  intro fuel
  induction fuel with
  | zero => intro depth t row t' extra extra' _ _ _ _ h; simp [addRow] at h
  | succ fuel IH =>
    intro depth t row t' extra extra' hT hr hex hsub h
    -- re-inserting the rows of a freshly split leaf
    have reinsert : ∀ (l : List Nat) (t t' : Node α) (ex : List Nat), TInvX E c root (l ++ ex) t →
        (∀ r ∈ l, RowInside c root t.data r) →
        l.foldlM (fun b r => addRow E c rl fuel depth b r) t = some t' →
        TInvX E c root ex t' ∧ t'.allRows.Perm (t.allRows ++ l) ∧ SameId t t' := by
      intro l
      induction l with
      | nil =>
        intro t t' ex hT _ h
        simp only [List.foldlM_nil, Option.pure_def, Option.some.injEq] at h
        subst h
        exact ⟨by simpa using hT, by simp, SameId.refl _⟩
      | cons r l ihl =>
        intro t t' ex hT hrs h
        rw [List.foldlM_cons] at h
        simp only [Option.bind_eq_bind, Option.bind_eq_some_iff] at h
        obtain ⟨t1, h1, h2⟩ := h
        have step := IH depth t r t1 (r :: l ++ ex) (l ++ ex) (by simpa using hT) (hrs r (by simp))
          (by intro x; simp only [List.mem_append, List.mem_cons, List.mem_singleton]; tauto)
          (by
            apply List.Perm.subperm
            simp only [List.cons_append, List.append_assoc]
            have : (r :: (l ++ (ex ++ t.allRows))).Perm ((l ++ (ex ++ t.allRows)) ++ [r]) := List.perm_append_singleton r _ |>.symm
            refine this.trans ?_
            simp only [List.append_assoc]
            exact List.Perm.refl _) h1
        obtain ⟨hT1, hp1, hid1⟩ := step
        have hrs' : ∀ r' ∈ l, RowInside c root t1.data r' := by
          intro r' hr' j hj
          have := hrs r' (by simp [hr'])
          rw [hid1.1] at hj
          rw [hid1.1, hid1.2.2.2.1]
          exact this j hj
        obtain ⟨hT2, hp2, hid2⟩ := ihl t1 t' ex hT1 hrs' h2
        refine ⟨hT2, ?_, hid1.trans hid2⟩
        refine hp2.trans ?_
        refine (hp1.append_right l).trans ?_
        simp
    cases hT with
    | leaf _ d subs rows hN =>
      rw [Node.allRows_leaf] at hex hsub
      rw [addRow] at h
      split_ifs at h with hsp
      · -- the leaf splits: an empty branch, then every row re-inserted
        have hN' : NodeOK E c root (updData c d row) subs (rows ++ [row]) (extra' ++ (rows ++ [row])) :=
          NodeOK.update row hN hr (List.Perm.refl _) hex
        simp only [shouldSplit, Bool.and_eq_true, Bool.not_eq_true'] at hsp
        obtain ⟨⟨⟨_, hstub⟩, hsing⟩, hover⟩ := hsp
        have hb0 : TInvX E c root ((rows ++ [row]) ++ extra')
            (.branch { updData c d row with counter := c.kind.newEntity, isStub := stubFlag E c subs } subs []) := by
          apply TInvX.branch
          · refine ⟨hN'.lenS, hN'.lenA, by simp, ?_, ?_, rfl, ⟨[], by simp [Node.allRows_branch], rfl⟩, hN'.subsOK⟩
            · intro r hr'; simp [Node.allRows_branch] at hr'
            · intro j hj
              refine (hN'.hull j hj).congr ?_
              intro x
              simp only [Node.allRows_branch, List.map_nil, List.flatten_nil, List.append_nil, List.mem_map, List.mem_append]
              constructor
              · rintro ⟨r, hr', rfl⟩; exact ⟨r, by tauto, rfl⟩
              · rintro ⟨r, hr', rfl⟩; exact ⟨r, by tauto, rfl⟩
          · refine ⟨by simp, by simp, by simp [Node.allRows_branch], ?_, hsing, ?_⟩
            · have := hN'.stub
              simp only [Node.data] at hstub
              rw [← this]; exact hstub
            · obtain ⟨hist, hperm, hc⟩ := hN'.counter
              refine ⟨hist, ?_, ?_⟩
              · simp only [Node.allRows_branch, List.map_nil, List.flatten_nil, List.append_nil]
                exact hperm.subperm.trans (List.sublist_append_left _ _).subperm
              · simp only [Node.overThreshold, Node.data, Bool.not_eq_true'] at hover
                rw [← hc]; exact hover
          · intro p hp; simp at hp
        have hins : ∀ r ∈ rows ++ [row], RowInside c root
            (Node.branch { updData c d row with counter := c.kind.newEntity, isStub := stubFlag E c subs } subs []).data r :=
          fun r hr' => hN'.inside r hr'
        obtain ⟨hT', hp', hid'⟩ := reinsert (rows ++ [row]) _ t' extra' hb0 hins h
        refine ⟨hT', ?_, ?_⟩
        · rw [Node.allRows_leaf]; simpa [Node.allRows_branch] using hp'
        · exact ⟨hid'.1, hid'.2.1, hid'.2.2.1, hid'.2.2.2.1, hid'.2.2.2.2⟩
      · simp only [Option.some.injEq] at h
        subst h
        refine ⟨TInvX.leaf _ _ _ _ (NodeOK.update row hN hr (List.Perm.refl _) hex), by simp [Node.allRows_leaf],
          ⟨rfl, rfl, rfl, rfl, rfl⟩⟩
    | branch _ d subs ch hN hB hC =>
      have hS := hN.lenS
      -- facts about the updated branch data that do not depend on which case applies
      have common : ∀ (ch' : List (Nat × Node α)),
          (Node.branch (updData c d row) subs ch').allRows.Perm ((Node.branch d subs ch).allRows ++ [row]) →
          NodeOK E c root (updData c d row) subs (Node.branch (updData c d row) subs ch').allRows
            (extra' ++ (Node.branch (updData c d row) subs ch').allRows) ∧
          (updData c d row).isStub = false ∧ (updData c d row).actual.all Ival.isSing = false ∧
          (∃ h0 : List Nat, h0.Subperm (extra' ++ (Node.branch (updData c d row) subs ch').allRows) ∧
            (c.kind.newEntity.addMany (h0.map c.pidRow)).isLowCount E c.ap.salt c.ap.supp = false) := by
        intro ch' hp
        refine ⟨NodeOK.update row hN hr hp ?_, hB.notStub, ?_, ?_⟩
        · intro x
          rw [← hex x]
          simp only [List.mem_append]
          rw [hp.mem_iff]
          simp only [List.mem_append]
        · exact notSing_update c d row hN.lenA (fun j hj => (hN.hull j hj).lo_le_hi) hB.notSing
        · obtain ⟨h0, hs0, hl0⟩ := hB.licence
          refine ⟨h0, (hs0.trans hsub).trans ?_, hl0⟩
          exact (List.Perm.append_left extra' hp.symm).subperm
      rw [addRow] at h
      cases hf : ch.find? (fun p => p.1 == childIndex d.snapped (c.vals d.comb row)) with
      | none =>
        rw [hf] at h
        simp only [Option.some.injEq] at h
        subst h
        have hall : (Node.branch (updData c d row) subs
            (ch ++ [(childIndex d.snapped (c.vals d.comb row), createChild E c d subs (childIndex d.snapped (c.vals d.comb row)) row)])).allRows
            = (Node.branch d subs ch).allRows ++ [row] := by
          simp [Node.allRows_branch, createChild, mkLeaf, Node.allRows_leaf]
        obtain ⟨cN, cStub, cSing, cLic⟩ := common _ (by rw [hall])
        refine ⟨?_, by rw [hall], ⟨rfl, rfl, rfl, rfl, rfl⟩⟩
        apply TInvX.branch _ _ _ _ cN
        · refine ⟨?_, ?_, ?_, cStub, cSing, cLic⟩
          · rw [List.map_append, List.nodup_append]
            refine ⟨hB.keys, by simp, ?_⟩
            intro a ha b hb
            simp only [List.map_cons, List.map_nil, List.mem_singleton] at hb
            subst hb
            obtain ⟨p, hp, rfl⟩ := List.mem_map.mp ha
            intro heq
            have := List.find?_eq_none.mp hf p hp
            simp [heq] at this
          · intro p hp
            rcases List.mem_append.mp hp with hp | hp
            · exact hB.child p hp
            · rw [List.mem_singleton.mp hp]
              exact ⟨rfl, rfl, rfl, rfl⟩
          · intro p hp r hr'
            rcases List.mem_append.mp hp with hp | hp
            · exact hB.route p hp r hr'
            · rw [List.mem_singleton.mp hp] at hr' ⊢
              simp only [createChild, mkLeaf, Node.allRows_leaf, List.mem_singleton] at hr'
              rw [hr']; rfl
        · intro p hp
          rcases List.mem_append.mp hp with hp | hp
          · exact hC p hp
          · rw [List.mem_singleton.mp hp]
            exact createChild_ok E c root d subs row hS hr hN.subsOK
      | some q0 =>
        rw [hf] at h
        simp only [Option.map_eq_some_iff] at h
        obtain ⟨ch', hm, ht'⟩ := h
        subst ht'
        rcases mapM_update_spec (fun n => addRow E c rl fuel (depth + 1) n row) _ ch ch' hB.keys hm with
          ⟨hnone, _⟩ | ⟨pre, q, post, n', hch, hqi, hfq, hch', hpre, hpost⟩
        · exfalso
          have hq0 := List.find?_some hf
          have hq0m := List.mem_of_find?_eq_some hf
          exact hnone q0 hq0m (by simpa using hq0)
        · have hqm : q ∈ ch := by rw [hch]; simp
          obtain ⟨qc, qp, qb, qs⟩ := hB.child q hqm
          have hrq : RowInside c root q.2.data row :=
            rowInside_child c root d q.2.data row hS hr qc (by rw [qs, hqi])
          obtain ⟨hTn, hpn, hidn⟩ := IH (depth + 1) q.2 row n' [] [] (hC q hqm) hrq
            (by intro x; simp) (by simp; exact (List.sublist_append_left _ _).subperm) hfq
          have hperm : (Node.branch (updData c d row) subs ch').allRows.Perm ((Node.branch d subs ch).allRows ++ [row]) := by
            rw [hch', hch, allRows_split, allRows_split]
            simp only [List.append_assoc]
            refine List.Perm.append_left _ ?_
            refine ((hpn.append_right _)).trans ?_
            simp only [List.append_assoc]
            refine List.Perm.append_left _ ?_
            exact List.perm_append_comm
          obtain ⟨cN, cStub, cSing, cLic⟩ := common ch' hperm
          refine ⟨?_, hperm, ⟨rfl, rfl, rfl, rfl, rfl⟩⟩
          apply TInvX.branch _ _ _ _ cN
          · refine ⟨?_, ?_, ?_, cStub, cSing, cLic⟩
            · have : ch'.map (·.1) = ch.map (·.1) := by rw [hch', hch]; simp
              rw [this]; exact hB.keys
            · intro p hp
              rw [hch'] at hp
              rcases List.mem_append.mp hp with hp | hp
              · exact hB.child p (by rw [hch]; simp [hp])
              · rcases List.mem_cons.mp hp with rfl | hp
                · exact ⟨hidn.1.trans qc, hidn.2.1.trans qp, hidn.2.2.1.trans qb, hidn.2.2.2.1.trans qs⟩
                · exact hB.child p (by rw [hch]; simp [hp])
            · intro p hp r hr'
              rw [hch'] at hp
              rcases List.mem_append.mp hp with hp | hp
              · exact hB.route p (by rw [hch]; simp [hp]) r hr'
              · rcases List.mem_cons.mp hp with rfl | hp
                · have := hpn.subset hr'
                  rcases List.mem_append.mp this with hm' | hm'
                  · exact hB.route q hqm r hm'
                  · rw [List.mem_singleton.mp hm']; exact hqi.symm
                · exact hB.route p (by rw [hch]; simp [hp]) r hr'
          · intro p hp
            rw [hch'] at hp
            rcases List.mem_append.mp hp with hp | hp
            · exact hC p (by rw [hch]; simp [hp])
            · rcases List.mem_cons.mp hp with rfl | hp
              · exact hTn
              · exact hC p (by rw [hch]; simp [hp])


/-- `add_row` on a finished tree -/
theorem addRow_inv (E : Env α) (c : FCtx α) (rl : Int) (root : List (Ival α)) (fuel depth : Nat) (t : Node α) (row : Nat)
    (t' : Node α) (hT : TInv E c root t) (hr : RowInside c root t.data row) (h : addRow E c rl fuel depth t row = some t') :
    TInv E c root t' ∧ t'.allRows.Perm (t.allRows ++ [row]) ∧ SameId t t' :=
  addRow_invX E c rl root fuel depth t row t' [] [] hT hr (by intro x; simp)
    (by simp; exact (List.sublist_append_left _ _).subperm) h

/-- a value inside the root range is inside the root range -/
theorem rowInside_root (c : FCtx α) (d : NodeData α) (row : Nat) : RowInside c d.snapped d row := by
  intro j _ h
  exact ⟨h.1, h.2, fun _ => rfl⟩

/-- inserting a list of rows at the root -/
theorem addRows_inv (E : Env α) (c : FCtx α) (rl : Int) (fuel depth : Nat) :
    ∀ (l : List Nat) (t t' : Node α), TInv E c t.data.snapped t →
      l.foldlM (fun b r => addRow E c rl fuel depth b r) t = some t' →
      TInv E c t.data.snapped t' ∧ t'.allRows.Perm (t.allRows ++ l) ∧ SameId t t' := by
  intro l
  induction l with
  | nil =>
    intro t t' hT h
    simp only [List.foldlM_nil, Option.pure_def, Option.some.injEq] at h
    subst h
    exact ⟨hT, by simp, SameId.refl _⟩
  | cons r l ih =>
    intro t t' hT h
    rw [List.foldlM_cons] at h
    simp only [Option.bind_eq_bind, Option.bind_eq_some_iff] at h
    obtain ⟨t1, h1, h2⟩ := h
    obtain ⟨hT1, hp1, hid1⟩ := addRow_inv E c rl _ fuel depth t r t1 hT (rowInside_root c t.data r) h1
    have hs : t1.data.snapped = t.data.snapped := hid1.2.2.2.1
    obtain ⟨hT2, hp2, hid2⟩ := ih t1 t' (by rw [hs]; exact hT1) h2
    refine ⟨by rw [← hs]; exact hT2, ?_, hid1.trans hid2⟩
    refine hp2.trans ((hp1.append_right l).trans ?_)
    simp

/-- `n` is a node of the tree `t` -/
inductive Node.Sub : Node α → Node α → Prop
  | refl (t : Node α) : Node.Sub t t
  | child (n : Node α) (d : NodeData α) (s : List (Option (Node α))) (ch : List (Nat × Node α)) (p : Nat × Node α) :
      p ∈ ch → Node.Sub n p.2 → Node.Sub n (.branch d s ch)

/-- every node of a tree that satisfies the invariant satisfies it -/
theorem TInv.sub {E : Env α} {c : FCtx α} {root : List (Ival α)} {n t : Node α} (hs : Node.Sub n t)
    (hT : TInv E c root t) : TInv E c root n := by
  induction hs with
  | refl => exact hT
  | child d s ch p hp _ ih =>
    cases hT with
    | branch _ _ _ _ _ _ hC => exact ih (hC p hp)

/-- the rows below a node of the tree are rows of the tree -/
theorem Node.Sub.rows_subset {n t : Node α} (hs : Node.Sub n t) : ∀ r ∈ n.allRows, r ∈ t.allRows := by
  induction hs with
  | refl => exact fun r hr => hr
  | child d s ch p hp _ ih => exact fun r hr => mem_allRows_of_child d s ch p hp r (ih r hr)


/-- a tree satisfying the invariant is well-shaped, sub-nodes included -/
theorem TInvX.shape {E : Env α} {c : FCtx α} {root : List (Ival α)} {ex : List Nat} {t : Node α} (h : TInvX E c root ex t) :
    Shape t := by
  induction h with
  | leaf extra d subs rows hN => exact Shape.leaf _ _ _ ⟨hN.lenS, hN.lenA, hN.subsOK.2.2⟩ hN.subsOK.1 hN.subsOK.2.1
  | branch extra d subs ch hN hB hC ih =>
    exact Shape.branch _ _ _ ⟨hN.lenS, hN.lenA, hN.subsOK.2.2⟩ hN.subsOK.1 hN.subsOK.2.1 hB.keys
      (fun p hp => ⟨(hB.child p hp).1, (hB.child p hp).2.1, (hB.child p hp).2.2.2⟩) ih


theorem Shape.lenS {t : Node α} (h : Shape t) : t.data.snapped.length = t.data.comb.length := by
  cases h with
  | leaf _ _ _ hS _ _ => exact hS.1
  | branch _ _ _ hS _ _ _ _ _ => exact hS.1

/-- nodes reachable from `root` through children and sub-nodes -/
inductive Reach (root : Node α) : Node α → Prop
  | refl : Reach root root
  | child (d : NodeData α) (s : List (Option (Node α))) (ch : List (Nat × Node α)) (p : Nat × Node α) :
      Reach root (.branch d s ch) → p ∈ ch → Reach root p.2
  | sub (n m : Node α) : Reach root n → some m ∈ n.subnodes → Reach root m


end
