import SdxModel.Forest
import Mathlib.Data.List.Perm.Basic
import Mathlib.Data.List.Basic
import Mathlib.Tactic.Linarith
/-! Structural tools for the nested tree type: the rows a tree holds, an induction principle, and how `add_row` changes them. -/

variable {α : Type}

theorem Node.sizeOf_child_lt (d : NodeData α) (s : List (Option (Node α))) (ch : List (Nat × Node α)) (p : Nat × Node α)
    (hp : p ∈ ch) : sizeOf p.2 < sizeOf (Node.branch d s ch) := by
  have h1 : sizeOf p < sizeOf ch := List.sizeOf_lt_of_mem hp
  have h2 : sizeOf p.2 < sizeOf p := by
    cases p with
    | mk a b => simp only [Prod.mk.sizeOf_spec]; omega
  simp only [Node.branch.sizeOf_spec]
  omega

/-- all rows held by the leaves of a tree, left to right -/
def Node.allRows : Node α → List Nat
  | .leaf _ _ rows => rows
  | .branch _ _ ch => (ch.attach.map (fun ⟨p, _⟩ => Node.allRows p.2)).flatten
termination_by n => sizeOf n
decreasing_by
  rename_i hp
  have h1 : sizeOf p < sizeOf ch := List.sizeOf_lt_of_mem hp
  have h2 : sizeOf p.2 < sizeOf p := by
    cases p with
    | mk a b => simp only [Prod.mk.sizeOf_spec]; omega
  simp only [Node.branch.sizeOf_spec]
  omega

theorem Node.allRows_leaf (d : NodeData α) (s : List (Option (Node α))) (rows : List Nat) :
    (Node.leaf d s rows).allRows = rows := by
  simp only [Node.allRows]

theorem Node.allRows_branch (d : NodeData α) (s : List (Option (Node α))) (ch : List (Nat × Node α)) :
    (Node.branch d s ch).allRows = (ch.map (fun p => p.2.allRows)).flatten := by
  simp only [Node.allRows]
  congr 1
  exact List.attach_map_val (l := ch) (f := fun p => p.2.allRows)
