import SdxModel.Forest
import Mathlib.Data.List.Perm.Basic
import Mathlib.Data.List.Basic
import Mathlib.Tactic.Linarith
/-! Structural tools for the nested tree type: the rows a tree holds, an induction principle, and how `add_row` changes them. -/

variable {α : Type}

theorem Node.sizeOf_child_lt (d : NodeData α) (s : List (Option (Node α))) (ch : List (Nat × Node α)) (p : Nat × Node α)
    (hp : p ∈ ch) : sizeOf p.2 < sizeOf (Node.branch d s ch) := by
  have h1 : sizeOf p < sizeOf ch := List.sizeOf_lt_of_mem hp
  have h2 : sizeOf p.2 < sizeOf p := by
    cases p with
    | mk a b => simp only [Prod.mk.sizeOf_spec]; omega
  simp only [Node.branch.sizeOf_spec]
  omega

/-- all rows held by the leaves of a tree, left to right -/
def Node.allRows : Node α → List Nat
  | .leaf _ _ rows => rows
  | .branch _ _ ch => (ch.attach.map (fun ⟨p, _⟩ => Node.allRows p.2)).flatten
termination_by n => sizeOf n
decreasing_by
  rename_i hp
  have h1 : sizeOf p < sizeOf ch := List.sizeOf_lt_of_mem hp
  have h2 : sizeOf p.2 < sizeOf p := by
    cases p with
    | mk a b => simp only [Prod.mk.sizeOf_spec]; omega
  simp only [Node.branch.sizeOf_spec]
  omega

theorem Node.allRows_leaf (d : NodeData α) (s : List (Option (Node α))) (rows : List Nat) :
    (Node.leaf d s rows).allRows = rows := by
  simp only [Node.allRows]

theorem Node.allRows_branch (d : NodeData α) (s : List (Option (Node α))) (ch : List (Nat × Node α)) :
    (Node.branch d s ch).allRows = (ch.map (fun p => p.2.allRows)).flatten := by
  simp only [Node.allRows]
  congr 1
  exact List.attach_map_val (l := ch) (f := fun p => p.2.allRows)

/-- `Branch.add_row` on the children dict: exactly the child stored under `idx` is replaced -/
theorem mapM_update_spec {β : Type} (f : β → Option β) (idx : Nat) :
    ∀ (ch ch' : List (Nat × β)), (ch.map (·.1)).Nodup →
      ch.mapM (fun p => if p.1 == idx then (f p.2).map (fun n => (p.1, n)) else some p) = some ch' →
      ((∀ p ∈ ch, p.1 ≠ idx) ∧ ch' = ch) ∨
      ∃ pre q post n', ch = pre ++ q :: post ∧ q.1 = idx ∧ f q.2 = some n' ∧ ch' = pre ++ (q.1, n') :: post ∧
        (∀ p ∈ pre, p.1 ≠ idx) ∧ (∀ p ∈ post, p.1 ≠ idx) := by
  intro ch
  induction ch with
  | nil => intro ch' _ h; left; simp at h; exact ⟨by simp, h⟩
  | cons a rest ih =>
    intro ch' hnd h
    rw [List.map_cons, List.nodup_cons] at hnd
    rw [List.mapM_cons] at h
    simp only [Option.bind_eq_bind, Option.pure_def, Option.bind_eq_some_iff, Option.some.injEq] at h
    obtain ⟨b, hb, bs, hbs, hch'⟩ := h
    by_cases ha : a.1 = idx
    · have hrest : ∀ p ∈ rest, p.1 ≠ idx := by
        intro p hp hpi
        exact hnd.1 (List.mem_map.mpr ⟨p, hp, by rw [hpi, ha]⟩)
      have hbeq : (a.1 == idx) = true := by simpa using ha
      rw [if_pos hbeq, Option.map_eq_some_iff] at hb
      obtain ⟨n', hf, hbn⟩ := hb
      rcases ih bs hnd.2 hbs with ⟨_, hr'⟩ | ⟨pre, q, post, n2, hq, hqi, _, _, _, _⟩
      · right
        refine ⟨[], a, rest, n', by simp, ha, hf, ?_, by simp, hrest⟩
        rw [← hch', ← hbn, hr']; simp
      · exfalso; exact hrest q (by rw [hq]; simp) hqi
    · have hbeq : ¬ (a.1 == idx) = true := by simpa using ha
      rw [if_neg hbeq, Option.some.injEq] at hb
      rcases ih bs hnd.2 hbs with ⟨hall, hr'⟩ | ⟨pre, q, post, n2, hq, hqi, hfq, hr', hpre, hpost⟩
      · left
        refine ⟨?_, by rw [← hch', hr', hb]⟩
        intro p hp
        rcases List.mem_cons.mp hp with rfl | hp
        · exact ha
        · exact hall p hp
      · right
        refine ⟨a :: pre, q, post, n2, by rw [hq]; simp, hqi, hfq, by rw [← hch', hr', hb]; simp, ?_, hpost⟩
        intro p hp
        rcases List.mem_cons.mp hp with rfl | hp
        · exact ha
        · exact hpre p hp
