import SdxProofs.AnonLemmas
import Mathlib.Algebra.Order.BigOperators.Group.List
import Mathlib.Algebra.BigOperators.Group.List.Basic
import Mathlib.Tactic.FieldSimp
set_option linter.unusedSectionVars false
/-! Flattening (`_flatten_contributions`) over an ordered field. -/

section
variable {α : Type} [Field α] [LinearOrder α] [IsStrictOrderedRing α] [FloorRing α]

/-- the contributions as scalars -/
def toα (cs : List Nat) : List α := cs.map fun (c : Nat) => ((c : ℤ) : α)
/-- their sum -/
def sumα (cs : List Nat) : α := (toα (α := α) cs).sum

theorem smax_eq_max (a b : α) : smax a b = max a b := by
  unfold smax; split_ifs with h
  · exact (max_eq_right (le_of_lt h)).symm
  · exact (max_eq_left (not_lt.mp h)).symm

theorem flatteningOf_eq_sum (cs : List Nat) (avg : α) :
    flatteningOf cs avg = (cs.map fun (c : Nat) => max (((c : ℤ) : α) - avg) 0).sum := by
  unfold flatteningOf
  show (cs.map fun c => smax (ofInt (Int.ofNat c) - avg) (ofInt 0)).sum = _
  congr 1
  apply List.map_congr_left
  intro c _
  simp only [smax_eq_max, ofInt_eq, Int.cast_zero, Int.ofNat_eq_natCast]

theorem flatteningOf_nonneg (cs : List Nat) (avg : α) : 0 ≤ flatteningOf cs avg := by
  rw [flatteningOf_eq_sum]
  apply List.sum_nonneg
  intro x hx
  simp only [List.mem_map] at hx
  obtain ⟨c, _, rfl⟩ := hx
  exact le_max_right _ _

/-- when every contribution is at least the average, the flattening removes exactly the excess -/
theorem flatteningOf_of_ge (cs : List Nat) (avg : α) (h : ∀ c ∈ cs, avg ≤ ((c : ℤ) : α)) :
    flatteningOf cs avg = sumα cs - (cs.length : α) * avg := by
  rw [flatteningOf_eq_sum]
  induction cs with
  | nil => simp [sumα, toα]
  | cons c cs ih =>
    have hc := h c (by simp)
    have := ih (fun c' hc' => h c' (by simp [hc']))
    simp only [List.map_cons, List.sum_cons, List.length_cons, sumα, toα] at this ⊢
    rw [this, max_eq_left (by linarith)]
    simp only [Nat.cast_add, Nat.cast_one]; ring

theorem sumα_append (a b : List Nat) : sumα (α := α) (a ++ b) = sumα a + sumα b := by
  simp [sumα, toα]

theorem sumα_ge (top : List Nat) (lo : α) (hlo : ∀ b ∈ top, lo ≤ ((b : ℤ) : α)) : (top.length : α) * lo ≤ sumα top := by
  unfold sumα toα
  induction top with
  | nil => simp
  | cons b bs ih =>
    have := ih (fun x hx => hlo x (by simp [hx]))
    have hb' := hlo b (by simp)
    simp only [List.map_cons, List.sum_cons, List.length_cons, Nat.cast_add, Nat.cast_one]; linarith

theorem sumα_le (top : List Nat) (hi : α) (hhi : ∀ b ∈ top, ((b : ℤ) : α) ≤ hi) : sumα top ≤ (top.length : α) * hi := by
  unfold sumα toα
  induction top with
  | nil => simp
  | cons b bs ih =>
    have := ih (fun x hx => hhi x (by simp [hx]))
    have hb' := hhi b (by simp)
    simp only [List.map_cons, List.sum_cons, List.length_cons, Nat.cast_add, Nat.cast_one]; linarith

/-- the average of a non-empty group lies between any lower and upper bound of its members -/
theorem avg_bounds (top : List Nat) (lo hi : α) (hne : top ≠ [])
    (hlo : ∀ b ∈ top, lo ≤ ((b : ℤ) : α)) (hhi : ∀ b ∈ top, ((b : ℤ) : α) ≤ hi) :
    lo ≤ sumα top / (top.length : α) ∧ sumα top / (top.length : α) ≤ hi := by
  have hlen : (0 : α) < (top.length : α) := by
    have : 0 < top.length := List.length_pos_of_ne_nil hne
    exact_mod_cast this
  have h1 := sumα_ge top lo hlo
  have h2 := sumα_le top hi hhi
  constructor
  · rw [le_div_iff₀ hlen]; linarith
  · rw [div_le_iff₀ hlen]; linarith

theorem sum_min_le_of_le (cs : List Nat) (m : α) :
    (cs.map fun (c : Nat) => min (((c : ℤ) : α)) m).sum ≤ (cs.length : α) * m := by
  induction cs with
  | nil => simp
  | cons c cs ih =>
    simp only [List.map_cons, List.sum_cons, List.length_cons, Nat.cast_add, Nat.cast_one]
    have := min_le_right (((c : ℤ) : α)) m
    linarith

theorem sum_min_le_sum (cs : List Nat) (m : α) :
    (cs.map fun (c : Nat) => min (((c : ℤ) : α)) m).sum ≤ sumα cs := by
  unfold sumα toα
  induction cs with
  | nil => simp
  | cons c cs ih =>
    simp only [List.map_cons, List.sum_cons]
    have := min_le_left (((c : ℤ) : α)) m
    linarith

theorem sum_min_ge_of_ge (cs : List Nat) (M a : α) (h : ∀ c ∈ cs, a ≤ ((c : ℤ) : α)) (hM : a ≤ M) :
    (cs.length : α) * a ≤ (cs.map fun (c : Nat) => min (((c : ℤ) : α)) M).sum := by
  induction cs with
  | nil => simp
  | cons c cs ih =>
    simp only [List.map_cons, List.sum_cons, List.length_cons, Nat.cast_add, Nat.cast_one]
    have := ih (fun c' hc' => h c' (by simp [hc']))
    have hc := h c (by simp)
    have : a ≤ min (((c : ℤ) : α)) M := le_min hc hM
    linarith

theorem sum_min_eq_of_le (cs : List Nat) (M : α) (h : ∀ c ∈ cs, ((c : ℤ) : α) ≤ M) :
    (cs.map fun (c : Nat) => min (((c : ℤ) : α)) M).sum = sumα cs := by
  unfold sumα toα
  induction cs with
  | nil => simp
  | cons c cs ih =>
    simp only [List.map_cons, List.sum_cons]
    rw [ih (fun c' hc' => h c' (by simp [hc'])), min_eq_left (h c (by simp))]

end

/-! ### `sorted(..., reverse=True, key=itemgetter(1, 0))` -/

theorem insertDesc_perm (x : UInt64 × Nat) (l : List (UInt64 × Nat)) : (insertDesc x l).Perm (x :: l) := by
  induction l with
  | nil => simp [insertDesc]
  | cons y ys ih =>
    unfold insertDesc
    split_ifs
    · exact List.Perm.refl _
    · exact (List.Perm.cons y ih).trans (List.Perm.swap x y ys)

theorem sortDesc_perm (l : List (UInt64 × Nat)) : (sortDesc l).Perm l := by
  induction l with
  | nil => simp [sortDesc]
  | cons x xs ih => exact (insertDesc_perm x _).trans (List.Perm.cons x ih)

theorem insertDesc_sorted (x : UInt64 × Nat) (l : List (UInt64 × Nat)) (h : l.Pairwise (fun a b => a.2 ≥ b.2)) :
    (insertDesc x l).Pairwise (fun a b => a.2 ≥ b.2) := by
  induction l with
  | nil => simp [insertDesc]
  | cons y ys ih =>
    unfold insertDesc
    have hy := List.pairwise_cons.mp h
    split_ifs with hc
    · refine List.pairwise_cons.mpr ⟨?_, h⟩
      have hxy : x.2 ≥ y.2 := by
        simp only [gt_iff_lt, Bool.or_eq_true, decide_eq_true_eq, Bool.and_eq_true, beq_iff_eq] at hc
        rcases hc with hc | hc <;> omega
      intro b hb
      rcases List.mem_cons.mp hb with rfl | hb
      · exact hxy
      · exact le_trans (hy.1 b hb) hxy
    · refine List.pairwise_cons.mpr ⟨?_, ih hy.2⟩
      have hyx : y.2 ≥ x.2 := by
        simp only [gt_iff_lt, Bool.or_eq_true, decide_eq_true_eq, Bool.and_eq_true, beq_iff_eq, not_or, not_and, not_lt] at hc
        exact hc.1
      intro b hb
      rcases List.mem_cons.mp ((insertDesc_perm x ys).mem_iff.mp hb) with rfl | hb
      · exact hyx
      · exact hy.1 b hb

/-- the contributions handed to the flattening are sorted decreasingly and are a permutation of the input -/
theorem sortDesc_sorted (l : List (UInt64 × Nat)) : (sortDesc l).Pairwise (fun a b => a.2 ≥ b.2) := by
  induction l with
  | nil => simp [sortDesc]
  | cons x xs ih => exact insertDesc_sorted x _ ih
