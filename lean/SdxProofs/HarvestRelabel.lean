import SdxProofs.Relabel
import SdxModel.Bucket
import SdxProofs.MonadLemmas
import SdxProofs.HarvestLemmas
set_option linter.unusedSectionVars false
set_option linter.unusedVariables false
/-!
# Position independence of the harvest

Harvesting the renamed tree over a table that agrees on the tree's columns gives the same buckets (ranges, counts, order)
and consumes the same random draws. Proved as a simulation: every harvesting step, run from the renamed state, ends in
the renamed state with the same result.
-/

section
variable {α : Type}

def relabKey (ρ : Nat → Nat) (k : NodeKey) : NodeKey := (k.1.map ρ, k.2)

def relabCell (ρ : Nat → Nat) (b : BCell α) : BCell α := { b with owner := relabKey ρ b.owner }

/-- the renamed harvest state: ghost owners and cache keys renamed, everything else as it is -/
def HState.relab (ρ : Nat → Nat) (s : HState α) : HState α :=
  { s with cells := s.cells.map (relabCell ρ), cache := s.cache.map (fun p => (relabKey ρ p.1, p.2)) }

/-- `x'` run from the renamed state does what `x` does from the original state: same outcome (error or value, the value
mapped by `r`), renamed final state -/
def SimR {β γ : Type} (ρ : Nat → Nat) (r : β → γ) (x : HM α β) (x' : HM α γ) : Prop :=
  ∀ s, x'.run (HState.relab ρ s) = (x.run s).map (fun p => (r p.1, HState.relab ρ p.2))

abbrev Sim {β : Type} (ρ : Nat → Nat) (x x' : HM α β) : Prop := SimR ρ id x x'

theorem SimR.pure {β γ : Type} (ρ : Nat → Nat) (r : β → γ) (a : β) : SimR (α := α) ρ r (pure a) (pure (r a)) := by
  intro s; rfl

theorem SimR.bind {β γ β' γ' : Type} {ρ : Nat → Nat} {r : β → γ} {r' : β' → γ'} {x : HM α β} {x' : HM α γ}
    {f : β → HM α β'} {f' : γ → HM α γ'} (hx : SimR ρ r x x') (hf : ∀ a, SimR ρ r' (f a) (f' (r a))) :
    SimR ρ r' (x >>= f) (x' >>= f') := by
  intro s
  simp only [StateT.run_bind]
  rw [hx s]
  cases h : x.run s with
  | error e => rfl
  | ok p =>
    obtain ⟨a, s1⟩ := p
    exact hf a s1

theorem SimR.throw {β γ : Type} (ρ : Nat → Nat) (r : β → γ) (e : String) :
    SimR (α := α) ρ r (throw e) (throw e) := by
  intro s; rfl

theorem Sim.liftEx {β : Type} (ρ : Nat → Nat) (e : Except String β) : Sim (α := α) ρ (liftEx e) (liftEx e) := by
  intro s
  cases e <;> rfl


theorem SimR.mapM {β γ δ : Type} {ρ : Nat → Nat} {r : β → γ} (g : δ → HM α β) (g' : δ → HM α γ) (h : δ → δ) :
    ∀ (l : List δ), (∀ a ∈ l, SimR ρ r (g a) (g' (h a))) → SimR ρ (List.map r) (l.mapM g) ((l.map h).mapM g') := by
  intro l
  induction l with
  | nil => intro _; exact SimR.pure ρ _ []
  | cons a l ih =>
    intro hall
    simp only [List.map_cons, List.mapM_cons]
    refine SimR.bind (hall a (by simp)) (fun b => ?_)
    refine SimR.bind (ih (fun x hx => hall x (by simp [hx]))) (fun bs => ?_)
    exact SimR.pure ρ _ _

theorem SimR.get_bind {β γ : Type} {ρ : Nat → Nat} {r : β → γ} (g : HState α → HM α β) (g' : HState α → HM α γ)
    (h : ∀ s0, SimR ρ r (g s0) (g' (HState.relab ρ s0))) : SimR ρ r (get >>= g) (get >>= g') := by
  intro s
  exact h s s

theorem Sim.modify {ρ : Nat → Nat} (m m' : HState α → HState α) (h : ∀ s, m' (HState.relab ρ s) = HState.relab ρ (m s)) :
    Sim (α := α) ρ (modify m) (modify m') := by
  intro s
  show Except.ok ((), m' (HState.relab ρ s)) = Except.ok ((), HState.relab ρ (m s))
  rw [h]

theorem Sim.newCell (ρ : Nat → Nat) (o : NodeKey) (ivs : List (Ival α)) (cnt : Int) :
    Sim (α := α) ρ (HM.newCell o ivs cnt) (HM.newCell (relabKey ρ o) ivs cnt) := by
  intro s
  show Except.ok ((HState.relab ρ s).cells.size, _) = Except.ok (s.cells.size, _)
  simp [HState.relab, relabCell]

theorem relab_getElem! [Inhabited α] (ρ : Nat → Nat) (s : HState α) (id : Nat) :
    (HState.relab ρ s).cells[id]! = relabCell ρ (s.cells[id]!) := by
  simp only [HState.relab]
  by_cases h : id < s.cells.size
  · simp [Array.getElem!_eq_getD, Array.getD, h]
  · simp [Array.getElem!_eq_getD, Array.getD, h]
    rfl

theorem SimR.cell [Inhabited α] (ρ : Nat → Nat) (id : Nat) : SimR (α := α) ρ (relabCell ρ) (HM.cell id) (HM.cell id) := by
  intro s
  show Except.ok ((HState.relab ρ s).cells[id]!, _) = Except.ok (relabCell ρ (s.cells[id]!), _)
  rw [relab_getElem!]

theorem Sim.randint (ρ : Nat → Nat) (hi : Int) : Sim (α := α) ρ (HM.randint hi) (HM.randint hi) := by
  intro s
  unfold HM.randint
  by_cases h1 : hi < 0
  · simp only [h1, if_true]; rfl
  · simp only [h1, if_false]
    cases hst : s.stream with
    | nil =>
      simp [StateT.run, bind, StateT.bind, get, getThe, MonadStateOf.get, StateT.get, Except.bind, pure, Except.pure, HState.relab, hst,
        throw, throwThe, MonadExceptOf.throw, StateT.lift, Except.map]
    | cons x rest =>
      by_cases h2 : (x : Int) > hi
      · simp [StateT.run, bind, StateT.bind, get, getThe, MonadStateOf.get, StateT.get, Except.bind, pure, Except.pure, HState.relab, hst,
          h2, throw, throwThe, MonadExceptOf.throw, StateT.lift, Except.map]
      · simp [StateT.run, bind, StateT.bind, get, getThe, MonadStateOf.get, StateT.get, Except.bind, pure, Except.pure, HState.relab, hst,
          h2, set, StateT.set, StateT.pure, Except.map]

end

section
variable {α : Type} [Add α] [Sub α] [Mul α] [Div α] [LT α] [LE α] [BEq α]
  [DecidableLT α] [DecidableLE α] [ScalarOps α] [Inhabited α]

theorem getElem!_map_relab (ρ : Nat → Nat) (cells : Array (BCell α)) (id : Nat) :
    (cells.map (relabCell ρ))[id]! = relabCell ρ (cells[id]!) := by
  by_cases h : id < cells.size
  · simp [h]
  · simp [h]; rfl

theorem sumCounts_relab (ρ : Nat → Nat) (cells : Array (BCell α)) (ids : List Nat) :
    sumCounts (cells.map (relabCell ρ)) ids = sumCounts cells ids := by
  unfold sumCounts
  congr 1
  apply List.map_congr_left
  intro id _
  rw [getElem!_map_relab]; rfl

theorem setCounts_relab (ρ : Nat → Nat) : ∀ (pairs : List (Nat × Int)) (cells : Array (BCell α)),
    HM.setCounts (cells.map (relabCell ρ)) pairs = (HM.setCounts cells pairs).map (relabCell ρ) := by
  intro pairs
  induction pairs with
  | nil => intro cells; rfl
  | cons p rest ih =>
    intro cells
    have e : (cells.map (relabCell ρ)).modify p.1 (fun b => { b with count := p.2 }) =
        (cells.modify p.1 (fun b => { b with count := p.2 })).map (relabCell ρ) := by
      apply Array.ext
      · simp
      · intro i h1 h2
        simp only [Array.getElem_modify, Array.getElem_map]
        split_ifs <;> rfl
    simp only [HM.setCounts, List.foldl_cons] at ih ⊢
    rw [e]
    exact ih _

theorem smallestIntervals_relab (ρ : Nat → Nat) (subb : List (List (BCell α))) :
    smallestIntervals (subb.map (fun bs => bs.map (relabCell ρ))) = smallestIntervals subb := by
  unfold smallestIntervals
  simp only [List.length_map]
  congr 1
  funext d
  rw [List.zip_map_right, List.filterMap_map]
  congr 2
  funext x
  obtain ⟨cb, bs⟩ := x
  simp only [Function.comp, Prod.map, id]
  cases hidx : cb.idxOf? d with
  | none => rfl
  | some pos =>
    cases bs with
    | nil => rfl
    | cons b rest =>
      simp only [List.map_cons]
      congr 1
      rw [List.foldl_map]
      rfl

theorem perDim_relab (ρ : Nat → Nat) (sm : List (Ival α)) (subb : List (List (BCell α))) :
    perDimensionRuns sm (subb.map (fun bs => bs.map (relabCell ρ))) = perDimensionRuns sm subb := by
  unfold perDimensionRuns
  simp only [List.length_map]
  congr 1
  funext d
  rw [List.zip_map_right, List.map_map]
  congr 2
  funext x
  obtain ⟨cb, bs⟩ := x
  simp only [Function.comp, Prod.map, id]
  cases hidx : cb.idxOf? d with
  | none => rfl
  | some pos =>
    simp only [List.filterMap_map]
    rfl

theorem perSub_relab (ρ : Nat → Nat) (sm : List (Ival α)) (subb : List (List (BCell α))) :
    perSubnodeRuns sm (subb.map (fun bs => bs.map (relabCell ρ))) = perSubnodeRuns sm subb := by
  unfold perSubnodeRuns
  simp only [List.length_map]
  rw [List.zip_map_right, List.map_map]
  congr 1
  funext x
  obtain ⟨cb, bs⟩ := x
  simp only [Function.comp, Prod.map, id, List.filterMap_map]
  rfl

variable {c c' : FCtx α} {ρ : Nat → Nat} {S : List Nat}

theorem compactNodeInterval_relab (E : Env α) (h : Agree c c' ρ S) (comb : List Nat) (hc : ∀ j ∈ comb, j ∈ S) (rows : List Nat)
    (dim : Nat) (hd : dim < comb.length) (iv : Ival α) :
    compactNodeInterval E c' (comb.map ρ) rows dim iv = compactNodeInterval E c comb rows dim iv := by
  unfold compactNodeInterval
  have hcol : (comb.map ρ).getD dim 0 = ρ (comb.getD dim 0) := by simp [List.getD_eq_getElem?_getD, hd]
  have hmem : comb.getD dim 0 ∈ S := hc _ (by rw [List.getD_eq_getElem?_getD, List.getElem?_eq_getElem hd]; simp)
  have hv : ∀ r, c'.value r ((comb.map ρ).getD dim 0) = c.value r (comb.getD dim 0) := fun r => by rw [hcol]; exact h.vals r _ hmem
  have hp : ∀ rs : List Nat, rs.map c'.pidRow = rs.map c.pidRow := fun rs => List.map_congr_left (fun r _ => h.pidRow r)
  simp only [hv, hp, h.kind, h.ap]

theorem compactNodeIntervals_relab (E : Env α) (h : Agree c c' ρ S) (n : Node α) (hc : ∀ j ∈ n.data.comb, j ∈ S)
    (hl : n.data.snapped.length ≤ n.data.comb.length) :
    compactNodeIntervals E c' (Node.relabel ρ n) = compactNodeIntervals E c n := by
  cases n with
  | leaf d subs rows =>
    rw [Node.relabel_leaf]
    have e1 : (d.relabel ρ).isStub = d.isStub := rfl
    have e2 : (d.relabel ρ).snapped = d.snapped := rfl
    have e3 : (d.relabel ρ).comb = d.comb.map ρ := rfl
    by_cases hst : d.isStub = true
    · simp only [compactNodeIntervals, e1, e2, e3, hst, if_true]
      apply List.map_congr_left
      intro pr hpr
      obtain ⟨k, iv⟩ := pr
      have hk : k < d.snapped.length := by
        have := (List.of_mem_zip hpr).1
        exact List.mem_range.mp this
      exact compactNodeInterval_relab E h d.comb hc rows k (lt_of_lt_of_le hk hl) iv
    · simp only [compactNodeIntervals, e1, e2, hst, Bool.false_eq_true, if_false]
  | branch d subs ch => rw [Node.relabel_branch]; rfl

theorem compactSmallest_relab (E : Env α) (h : Agree c c' ρ S) (n : Node α) (hc : ∀ j ∈ n.data.comb, j ∈ S)
    (hl : n.data.snapped.length ≤ n.data.comb.length) (sm : List (Ival α)) :
    compactSmallest E c' (Node.relabel ρ n) sm = compactSmallest E c n sm := by
  unfold compactSmallest
  rw [compactNodeIntervals_relab E h n hc hl]

theorem relabel_bucketIntervals (n : Node α) : (Node.relabel ρ n).bucketIntervals = n.bucketIntervals := by
  simp [Node.bucketIntervals, Node.relabel_data, NodeData.relabel]

theorem relabel_dims (n : Node α) : (Node.relabel ρ n).dims = n.dims := by
  simp [Node.dims, Node.relabel_data, NodeData.relabel]

theorem relabel_nodeKey (n : Node α) : nodeKey (Node.relabel ρ n) = relabKey ρ (nodeKey n) := by
  simp [nodeKey, relabKey, Node.relabel_data, NodeData.relabel]

theorem relabel_subnodes (n : Node α) : (Node.relabel ρ n).subnodes = n.subnodes.map (Option.map (Node.relabel ρ)) := by
  cases n with
  | leaf d s r => rw [Node.relabel_leaf]; rfl
  | branch d s ch => rw [Node.relabel_branch]; rfl

end

section
variable {α : Type} [Add α] [Sub α] [Mul α] [Div α] [LT α] [LE α] [BEq α]
  [DecidableLT α] [DecidableLE α] [ScalarOps α] [Inhabited α]
variable {c c' : FCtx α} {ρ : Nat → Nat} {S : List Nat}

theorem relabKey_inj (hρ : Function.Injective ρ) : Function.Injective (relabKey ρ) := by
  intro a b h
  simp only [relabKey, Prod.mk.injEq] at h
  exact Prod.ext (List.map_injective_iff.mpr hρ h.1) h.2

theorem find?_relab (hρ : Function.Injective ρ) (cache : List (NodeKey × List Nat)) (key : NodeKey) :
    (cache.map (fun p => (relabKey ρ p.1, p.2))).find? (fun p => p.1 == relabKey ρ key) =
      (cache.find? (fun p => p.1 == key)).map (fun p => (relabKey ρ p.1, p.2)) := by
  induction cache with
  | nil => rfl
  | cons a rest ih =>
    simp only [List.map_cons, List.find?_cons]
    have e : (relabKey ρ a.1 == relabKey ρ key) = (a.1 == key) := by
      by_cases h : a.1 = key
      · simp [h]
      · have : relabKey ρ a.1 ≠ relabKey ρ key := fun hh => h (relabKey_inj hρ hh)
        simp [h, this]
    rw [e]
    cases a.1 == key with
    | true => rfl
    | false => exact ih

/-- what the simulation needs of a tree: columns in `S`, ranges no longer than the column list — for every node, children
and sub-nodes alike -/
inductive HGood (S : List Nat) : Node α → Prop
  | leaf (d : NodeData α) (subs : List (Option (Node α))) (rows : List Nat) :
      (∀ j ∈ d.comb, j ∈ S) → d.snapped.length ≤ d.comb.length → (∀ s, some s ∈ subs → HGood S s) → HGood S (.leaf d subs rows)
  | branch (d : NodeData α) (subs : List (Option (Node α))) (ch : List (Nat × Node α)) :
      (∀ j ∈ d.comb, j ∈ S) → d.snapped.length ≤ d.comb.length → (∀ s, some s ∈ subs → HGood S s) →
      (∀ p ∈ ch, HGood S p.2) → HGood S (.branch d subs ch)

theorem HGood.facts {n : Node α} (h : HGood S n) :
    (∀ j ∈ n.data.comb, j ∈ S) ∧ n.data.snapped.length ≤ n.data.comb.length ∧ (∀ s, some s ∈ n.subnodes → HGood S s) := by
  cases h with
  | leaf _ _ _ h1 h2 h3 => exact ⟨h1, h2, h3⟩
  | branch _ _ _ h1 h2 h3 _ => exact ⟨h1, h2, h3⟩

end

section
variable {α : Type} [Add α] [Sub α] [Mul α] [Div α] [LT α] [LE α] [BEq α]
  [DecidableLT α] [DecidableLE α] [ScalarOps α] [Inhabited α]
variable {c c' : FCtx α} {ρ : Nat → Nat} {S : List Nat}

theorem Sim.mapM {β δ : Type} (g g' : δ → HM α β) (l : List δ) (h : ∀ a ∈ l, Sim ρ (g a) (g' a)) :
    Sim ρ (l.mapM g) (l.mapM g') := by
  have := SimR.mapM (ρ := ρ) (r := id) g g' id l (by simpa using h)
  simpa [Sim] using this

theorem Sim.matchSub (K : NodeKey) (count : Int) (perDim : List (List (Ival α × Int))) (perSub : List (List (List (Ival α) × Int))) :
    Sim ρ (matchSubintervals K count perDim perSub) (matchSubintervals (relabKey ρ K) count perDim perSub) := by
  unfold matchSubintervals
  apply Sim.mapM
  intro mc _
  refine SimR.bind (Sim.randint ρ _) (fun a => ?_)
  refine SimR.bind (Sim.randint ρ _) (fun b => ?_)
  simp only [id]
  split
  · exact Sim.newCell ρ K _ 1
  · exact SimR.throw ρ id "index"

/-- the single-cell fallback -/
theorem Sim.single (K : NodeKey) (ivs : List (Ival α)) (cnt : Int) :
    Sim ρ (do let id ← HM.newCell (α := α) K ivs cnt; pure [id]) (do let id ← HM.newCell (α := α) (relabKey ρ K) ivs cnt; pure [id]) :=
  SimR.bind (Sim.newCell ρ K ivs cnt) (fun a => SimR.pure ρ id [a])

end

section
variable {α : Type} [Add α] [Sub α] [Mul α] [Div α] [LT α] [LE α] [BEq α]
  [DecidableLT α] [DecidableLE α] [ScalarOps α] [Inhabited α]
variable {c c' : FCtx α} {ρ : Nat → Nat} {S : List Nat}

def NodeSim (E : Env α) (c c' : FCtx α) (ρ : Nat → Nat) (S : List Nat) (fuel : Nat) : Prop :=
  ∀ n, HGood S n → Sim ρ (harvestNode E c fuel n) (harvestNode E c' fuel (Node.relabel ρ n))

def RefineSim (E : Env α) (c c' : FCtx α) (ρ : Nat → Nat) (S : List Nat) (fuel : Nat) : Prop :=
  ∀ n count, HGood S n → Sim ρ (refineBuckets E c fuel n count) (refineBuckets E c' fuel (Node.relabel ρ n) count)

def LeafSim (E : Env α) (c c' : FCtx α) (ρ : Nat → Nat) (S : List Nat) (fuel : Nat) : Prop :=
  ∀ n, HGood S n → Sim ρ (harvestLeaf E c fuel n) (harvestLeaf E c' fuel (Node.relabel ρ n))

def BranchSim (E : Env α) (c c' : FCtx α) (ρ : Nat → Nat) (S : List Nat) (fuel : Nat) : Prop :=
  ∀ d subs ch, HGood S (.branch d subs ch) →
    Sim ρ (harvestBranch E c fuel (.branch d subs ch) ch)
      (harvestBranch E c' fuel (Node.relabel ρ (.branch d subs ch)) (ch.map (fun p => (p.1, Node.relabel ρ p.2))))

theorem leafSim_of_refine (E : Env α) (h : Agree c c' ρ S) (fuel : Nat) (hR : RefineSim E c c' ρ S fuel) :
    LeafSim E c c' ρ S fuel := by
  intro n hg
  unfold harvestLeaf
  simp only [relabel_overThreshold E h, relabel_noisyCount E h, relabel_isSing, relabel_dims, relabel_bucketIntervals,
    relabel_nodeKey, h.ap]
  by_cases hover : n.overThreshold E c c.ap.supp.lt = true
  · simp only [hover, if_true]
    refine SimR.bind (Sim.liftEx ρ _) (fun cnt => ?_)
    simp only [id]
    by_cases hs : (n.isSing || n.dims == 1) = true
    · simp only [hs, if_true]
      exact Sim.single _ _ _
    · simp only [hs, Bool.false_eq_true, if_false]
      exact hR n cnt hg
  · simp only [hover, Bool.false_eq_true, if_false]
    exact SimR.pure ρ id []

end

section
variable {α : Type} [Add α] [Sub α] [Mul α] [Div α] [LT α] [LE α] [BEq α]
  [DecidableLT α] [DecidableLE α] [ScalarOps α] [Inhabited α]
variable {c c' : FCtx α} {ρ : Nat → Nat} {S : List Nat}

theorem SimR.mapM_same {β γ δ : Type} {r : β → γ} (g : δ → HM α β) (g' : δ → HM α γ) (l : List δ)
    (h : ∀ a ∈ l, SimR ρ r (g a) (g' a)) : SimR ρ (List.map r) (l.mapM g) (l.mapM g') := by
  have := SimR.mapM (ρ := ρ) (r := r) g g' id l (by simpa using h)
  simpa using this

theorem SimR.congr_r {β γ : Type} {r r' : β → γ} {x : HM α β} {x' : HM α γ} (e : r = r') (hx : SimR ρ r x x') : SimR ρ r' x x' := by
  subst e; exact hx

theorem refineSim_of_node (E : Env α) (h : Agree c c' ρ S) (fuel : Nat) (hN : NodeSim E c c' ρ S fuel) :
    RefineSim E c c' ρ S (fuel + 1) := by
  intro n count hg
  obtain ⟨hc, hl, hsub⟩ := hg.facts
  rw [refineBuckets, refineBuckets]
  simp only [relabel_dims, relabel_subnodes, relabel_nodeKey, relabel_bucketIntervals, relabel_noisyCount E h,
    Node.relabel_data, NodeData.relabel]
  rw [List.zip_map_left]
  refine SimR.bind (r := id) (SimR.congr_r (by funext l; simp)
    (SimR.mapM (r := id) _ _ (Prod.map (Option.map (Node.relabel ρ)) id) _ ?_)) (fun subIds => ?_)
  · intro b hb
    obtain ⟨sub, comb⟩ := b
    have hcomb : comb ∈ genCombinations (n.dims - 1) n.dims := (List.of_mem_zip hb).2
    have hsubm : sub ∈ n.subnodes := (List.of_mem_zip hb).1
    dsimp only [Prod.map, id]
    by_cases hsing : (comb.map (fun i => n.data.actual.getD i default)).all Ival.isSing = true
    · simp only [hsing, if_true]
      refine SimR.bind (Sim.liftEx ρ _) (fun cnt => ?_)
      have eo : (comb.map (fun i => (n.data.comb.map ρ).getD i 0), n.data.path) =
          relabKey ρ (comb.map (fun i => n.data.comb.getD i 0), n.data.path) := by
        simp only [relabKey, List.map_map, Prod.mk.injEq, and_true]
        apply List.map_congr_left
        intro i hi
        have : i < n.data.comb.length := genCombinations_mem_lt _ _ comb hcomb i hi
        simp [List.getD_eq_getElem?_getD, this]
      rw [eo]
      exact Sim.single _ _ _
    · simp only [hsing, Bool.false_eq_true, if_false]
      cases sub with
      | none => exact SimR.pure (α := α) ρ id ([] : List Nat)
      | some sn => exact hN sn (hsub sn hsubm)
  · dsimp only [id]
    by_cases ha : subIds.any List.isEmpty = true
    · simp only [ha, if_true]
      exact Sim.single _ _ _
    · simp only [ha, Bool.false_eq_true, if_false]
      refine SimR.bind (r := List.map (List.map (relabCell ρ)))
        (SimR.mapM_same _ _ subIds (fun ids _ => SimR.mapM_same _ _ ids (fun id _ => SimR.cell ρ id))) (fun subb => ?_)
      rw [smallestIntervals_relab]
      refine SimR.bind (Sim.liftEx ρ _) (fun sm0 => ?_)
      simp only [id]
      rw [compactSmallest_relab E h n hc hl, perDim_relab, perSub_relab]
      split_ifs
      · exact Sim.single _ _ _
      · exact Sim.matchSub _ _ _ _

end

section
variable {α : Type} [Add α] [Sub α] [Mul α] [Div α] [LT α] [LE α] [BEq α]
  [DecidableLT α] [DecidableLE α] [ScalarOps α] [Inhabited α]
variable {c c' : FCtx α} {ρ : Nat → Nat} {S : List Nat}

theorem counts_relab (cells : Array (BCell α)) (ids : List Nat) :
    ids.map (fun id => ((cells.map (relabCell ρ))[id]!).count) = ids.map (fun id => (cells[id]!).count) := by
  apply List.map_congr_left
  intro id _
  rw [getElem!_map_relab]; rfl

theorem branchSim_of_node (E : Env α) (h : Agree c c' ρ S) (fuel : Nat) (hN : NodeSim E c c' ρ S fuel)
    (hR : RefineSim E c c' ρ S fuel) : BranchSim E c c' ρ S (fuel + 1) := by
  intro d subs ch hg
  have hgch : ∀ p ∈ ch, HGood S p.2 := by
    cases hg with
    | branch _ _ _ _ _ _ h4 => exact h4
  rw [harvestBranch, harvestBranch]
  simp only [relabel_dims, relabel_nodeKey, relabel_bucketIntervals, relabel_noisyCount E h]
  refine SimR.bind (r := id) (SimR.congr_r (by funext l; simp)
    (SimR.mapM (r := id) _ _ (fun p => (p.1, Node.relabel ρ p.2)) ch (fun p hp => hN p.2 (hgch p hp)))) (fun idss => ?_)
  dsimp only [id]
  refine SimR.get_bind _ _ (fun s0 => ?_)
  have esum : sumCounts (HState.relab ρ s0).cells idss.flatten = sumCounts s0.cells idss.flatten := sumCounts_relab ρ _ _
  have ecnt : idss.flatten.map (fun id => ((HState.relab ρ s0).cells[id]!).count) = idss.flatten.map (fun id => (s0.cells[id]!).count) :=
    counts_relab _ _
  rw [esum, ecnt]
  refine SimR.bind (Sim.liftEx ρ _) (fun parent => ?_)
  dsimp only [id]
  by_cases hlow : 2 * sumCounts s0.cells idss.flatten < parent
  · simp only [hlow, if_true]
    by_cases h1 : ((Node.branch d subs ch).dims == 1) = true
    · simp only [h1, if_true]
      exact Sim.single _ _ _
    · simp only [h1, Bool.false_eq_true, if_false]
      exact SimR.bind (hR _ _ hg) (fun rids => SimR.pure ρ id _)
  · simp only [hlow, if_false]
    by_cases hz : (sumCounts s0.cells idss.flatten == 0) = true
    · simp only [hz, if_true]
      exact SimR.bind (SimR.throw ρ id "zerodiv") (fun _ => by
        refine SimR.bind (Sim.modify _ _ ?_) (fun _ => SimR.pure ρ id _)
        intro s; simp only [HState.relab]; rw [setCounts_relab])
    · simp only [hz, Bool.false_eq_true, if_false]
      refine SimR.bind (Sim.modify _ _ ?_) (fun _ => SimR.pure ρ id _)
      intro s; simp only [HState.relab]; rw [setCounts_relab]

end

section
variable {α : Type} [Add α] [Sub α] [Mul α] [Div α] [LT α] [LE α] [BEq α]
  [DecidableLT α] [DecidableLE α] [ScalarOps α] [Inhabited α]
variable {c c' : FCtx α} {ρ : Nat → Nat} {S : List Nat}

theorem nodeSim_of_leaf_branch (E : Env α) (hρ : Function.Injective ρ) (fuel : Nat) (hL : LeafSim E c c' ρ S fuel)
    (hB : BranchSim E c c' ρ S fuel) : NodeSim E c c' ρ S (fuel + 1) := by
  intro n hg
  rw [harvestNode, harvestNode]
  simp only [relabel_nodeKey]
  refine SimR.get_bind _ _ (fun s0 => ?_)
  have ec : (HState.relab ρ s0).cache = s0.cache.map (fun p => (relabKey ρ p.1, p.2)) := rfl
  rw [ec, find?_relab hρ]
  cases hf : s0.cache.find? (fun p => p.1 == nodeKey n) with
  | some hit =>
    obtain ⟨k, ids⟩ := hit
    simp only [Option.map_some]
    exact SimR.pure ρ id ids
  | none =>
    simp only [Option.map_none]
    have jp : ∀ ids : List Nat, Sim ρ
        (do modify (fun (s : HState α) => { s with cache := (nodeKey n, ids) :: s.cache }); pure ids)
        (do modify (fun (s : HState α) => { s with cache := (relabKey ρ (nodeKey n), ids) :: s.cache }); pure ids) := by
      intro ids
      refine SimR.bind (Sim.modify _ _ ?_) (fun _ => SimR.pure ρ id ids)
      intro s; rfl
    cases n with
    | leaf d subs rows =>
      rw [Node.relabel_leaf]
      simp only
      rw [← Node.relabel_leaf]
      exact SimR.bind (hL _ hg) (fun ids => jp ids)
    | branch d subs ch =>
      rw [Node.relabel_branch]
      simp only
      rw [← Node.relabel_branch]
      exact SimR.bind (hB d subs ch hg) (fun ids => jp ids)

theorem harvest_sim_all (E : Env α) (h : Agree c c' ρ S) (hρ : Function.Injective ρ) :
    ∀ fuel, NodeSim E c c' ρ S fuel ∧ RefineSim E c c' ρ S fuel ∧ BranchSim E c c' ρ S fuel ∧ LeafSim E c c' ρ S fuel := by
  intro fuel
  induction fuel with
  | zero =>
    have hR : RefineSim E c c' ρ S 0 := by
      intro n count _
      rw [refineBuckets, refineBuckets]
      exact SimR.throw ρ id "fuel"
    refine ⟨?_, hR, ?_, leafSim_of_refine E h 0 hR⟩
    · intro n _
      rw [harvestNode, harvestNode]
      exact SimR.throw ρ id "fuel"
    · intro d subs ch _
      rw [harvestBranch, harvestBranch]
      exact SimR.throw ρ id "fuel"
  | succ fuel ih =>
    obtain ⟨hN, hR, hB, hL⟩ := ih
    have hR' := refineSim_of_node E h fuel hN
    exact ⟨nodeSim_of_leaf_branch E hρ fuel hL hB, hR', branchSim_of_node E h fuel hN hR, leafSim_of_refine E h (fuel + 1) hR'⟩

/-- the harvest of the renamed tree over the second table returns the same buckets — same ranges, same counts, same order
(only the ghost owners differ) — and consumes the same number of random draws, or fails with the same error -/
theorem harvest_relabel (E : Env α) (h : Agree c c' ρ S) (hρ : Function.Injective ρ) (t : Node α) (hg : HGood S t)
    (stream : List Nat) :
    harvest E c' (Node.relabel ρ t) stream = (harvest E c t stream).map (fun p => (p.1.map (relabCell ρ), p.2)) := by
  unfold harvest
  have hs := (harvest_sim_all E h hρ 100000).1 t hg { stream := stream }
  have e0 : HState.relab ρ ({ stream := stream } : HState α) = { stream := stream } := by simp [HState.relab]
  rw [e0] at hs
  rw [hs]
  cases hr : (harvestNode E c 100000 t).run { stream := stream } with
  | error e => rfl
  | ok p =>
    obtain ⟨ids, s⟩ := p
    have e1 : ids.map (fun id => (HState.relab ρ s).cells[id]!) = (ids.map (fun id => s.cells[id]!)).map (relabCell ρ) := by
      rw [List.map_map]
      apply List.map_congr_left
      intro id _
      exact relab_getElem! ρ s id
    have e2 : ∀ l : List (BCell α), (l.map (relabCell ρ)).filter (fun b => decide (b.count > 0)) =
        (l.filter (fun b => decide (b.count > 0))).map (relabCell ρ) := by
      intro l
      rw [List.filter_map]
      rfl
    show Except.ok (((ids.map (fun id => (HState.relab ρ s).cells[id]!)).filter (fun b => decide (b.count > 0))), (HState.relab ρ s).drawn) =
      Except.ok ((((ids.map (fun id => s.cells[id]!)).filter (fun b => decide (b.count > 0))).map (relabCell ρ)), s.drawn)
    rw [e1, e2]
    rfl

end

section
variable {α : Type} [Field α] [LinearOrder α] [IsStrictOrderedRing α] [FloorRing α] [Inhabited α]

/-- a well-shaped tree over columns in `S` meets the requirements of the simulation, sub-nodes included -/
theorem HGood.of_shape {S : List Nat} {t : Node α} (h : Shape t) (hc : ∀ j ∈ t.data.comb, j ∈ S) : HGood S t := by
  induction h with
  | leaf d subs rows hl hC hS ih =>
    refine HGood.leaf _ _ _ hc (le_of_eq hl.1) ?_
    intro s hs
    obtain ⟨k, hk, hks⟩ := List.mem_iff_getElem.mp hs
    have hk' : subs[k]? = some (some s) := by rw [List.getElem?_eq_getElem hk, hks]
    refine ih k s hk' ?_
    obtain ⟨_, hcs, _⟩ := hC k s hk'
    intro j hj
    rw [hcs] at hj
    exact hc j (List.mem_of_mem_eraseIdx hj)
  | branch d subs ch hl hC hS hkeys hchild hCh ih1 ih2 =>
    refine HGood.branch _ _ _ hc (le_of_eq hl.1) ?_ ?_
    · intro s hs
      obtain ⟨k, hk, hks⟩ := List.mem_iff_getElem.mp hs
      have hk' : subs[k]? = some (some s) := by rw [List.getElem?_eq_getElem hk, hks]
      refine ih1 k s hk' ?_
      obtain ⟨_, hcs, _⟩ := hC k s hk'
      intro j hj
      rw [hcs] at hj
      exact hc j (List.mem_of_mem_eraseIdx hj)
    · intro p hp
      refine ih2 p hp ?_
      rw [(hchild p hp).1]; exact hc

end
