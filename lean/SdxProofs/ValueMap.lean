import SdxModel.Convert
import SdxProofs.PrefixLemma
/-!
# The value map of a string column (`StringConvertor.__init__`)

`sorted(set(values))`: strictly increasing by code points, holding exactly the non-null strings of the column; hence the
encoding (index in the value map) and the decoding (`value_map[index]`) are inverse to each other, and the hypothesis of
the mask-prefix theorem (`SortedStrings`) holds of every fitted convertor. Core order on `String` / `List Char` only.
-/

theorem String.lt_of_not_lt_of_ne {a b : String} (h1 : ¬ a < b) (h2 : a ≠ b) : b < a := by
  by_cases h : b < a
  · exact h
  · exact absurd (String.le_antisymm (a := a) (b := b) h h1) h2

theorem mem_insertDedup (x y : String) : ∀ l : List String, y ∈ insertDedup x l ↔ y = x ∨ y ∈ l := by
  intro l
  induction l with
  | nil => simp [insertDedup]
  | cons z zs ih =>
    unfold insertDedup
    by_cases h1 : x < z
    · simp [h1]
    · by_cases h2 : (x == z) = true
      · have : x = z := by simpa using h2
        subst this; simp
      · rw [if_neg h1, if_neg h2]
        simp only [List.mem_cons, ih]
        constructor <;> intro h <;> rcases h with h | h | h <;> simp [h]

theorem insertDedup_sorted (x : String) : ∀ l : List String, l.Pairwise (· < ·) → (insertDedup x l).Pairwise (· < ·) := by
  intro l
  induction l with
  | nil => intro _; simp [insertDedup]
  | cons z zs ih =>
    intro h
    rw [List.pairwise_cons] at h
    unfold insertDedup
    by_cases h1 : x < z
    · rw [if_pos h1, List.pairwise_cons]
      refine ⟨?_, List.pairwise_cons.mpr h⟩
      intro y hy
      rcases List.mem_cons.mp hy with rfl | hy
      · exact h1
      · exact String.lt_trans h1 (h.1 y hy)
    by_cases h2 : (x == z) = true
    · rw [if_neg h1, if_pos h2]; exact List.pairwise_cons.mpr h
    · rw [if_neg h1, if_neg h2]
      have hne : x ≠ z := by simpa using h2
      have hzx : z < x := String.lt_of_not_lt_of_ne h1 hne
      rw [List.pairwise_cons]
      refine ⟨?_, ih h.2⟩
      intro y hy
      rcases (mem_insertDedup x y zs).mp hy with rfl | hy
      · exact hzx
      · exact h.1 y hy

theorem foldl_insertDedup_spec (vals : List String) : ∀ acc : List String, acc.Pairwise (· < ·) →
    (vals.foldl (fun acc x => insertDedup x acc) acc).Pairwise (· < ·) ∧
    ∀ y, y ∈ vals.foldl (fun acc x => insertDedup x acc) acc ↔ y ∈ vals ∨ y ∈ acc := by
  induction vals with
  | nil => intro acc h; simp [h]
  | cons v vs ih =>
    intro acc h
    obtain ⟨h1, h2⟩ := ih (insertDedup v acc) (insertDedup_sorted v acc h)
    refine ⟨h1, fun y => ?_⟩
    rw [List.foldl_cons, h2, mem_insertDedup]
    simp only [List.mem_cons]
    constructor
    · intro h; rcases h with h | h | h <;> simp [h]
    · intro h; rcases h with (h | h) | h <;> simp [h]

/-- the value map is strictly increasing by code points … -/
theorem valueMapOf_strict (v : List (Option String)) : (valueMapOf v).Pairwise (· < ·) :=
  (foldl_insertDedup_spec _ [] List.Pairwise.nil).1

/-- … and holds exactly the non-null strings of the column -/
theorem mem_valueMapOf (v : List (Option String)) (x : String) : x ∈ valueMapOf v ↔ some x ∈ v := by
  unfold valueMapOf
  rw [(foldl_insertDedup_spec _ [] List.Pairwise.nil).2]
  simp [List.mem_filterMap]

/-- the fitted value map satisfies the hypothesis of the mask-prefix theorem -/
theorem valueMapOf_sorted (v : List (Option String)) : SortedStrings (valueMapOf v) := by
  unfold SortedStrings
  rw [List.pairwise_map]
  exact (valueMapOf_strict v).imp (fun {a b} h => List.le_of_lt (String.lt_iff.mp h))

/-- decoding the code of a string of the column gives the string back -/
theorem valueMapOf_roundtrip (v : List (Option String)) (x : String) (hx : some x ∈ v) :
    (valueMapOf v)[(valueMapOf v).idxOf x]? = some x := by
  have hm := (mem_valueMapOf v x).mpr hx
  have hlt := List.idxOf_lt_length_of_mem hm
  rw [List.getElem?_eq_getElem hlt]
  simp [List.getElem_idxOf]

/-- different strings get different codes -/
theorem valueMapOf_injective (v : List (Option String)) (x y : String) (hx : some x ∈ v) (hy : some y ∈ v)
    (h : (valueMapOf v).idxOf x = (valueMapOf v).idxOf y) : x = y := by
  have h1 := valueMapOf_roundtrip v x hx
  have h2 := valueMapOf_roundtrip v y hy
  rw [h] at h1
  rw [h1] at h2
  exact Option.some.inj h2
