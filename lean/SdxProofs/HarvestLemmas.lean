import SdxProofs.MonadLemmas
import SdxProofs.BucketLemmas
import SdxProofs.TreeInv
set_option linter.unusedSectionVars false
set_option linter.unusedVariables false
/-!
# The harvest: aliasing, frame and conservation

Cells are only ever appended; ranges and owner of a cell never change; the count of a cell is changed only by the
rescaling step of the branch that (transitively) contains the cell's owner, or of a lower-dimensional tree.
-/

section
variable {α : Type} [Field α] [LinearOrder α] [IsStrictOrderedRing α] [FloorRing α] [Inhabited α]

/-- `s'` extends `s`: cells only appended; ranges and owners of existing cells unchanged; counts unchanged for
cells owned by trees of at least `L` columns -/
def Ext (L : Nat) (s s' : HState α) : Prop :=
  s.cells.size ≤ s'.cells.size ∧
  ∀ id < s.cells.size, s'.cells[id]!.ivs = s.cells[id]!.ivs ∧ s'.cells[id]!.owner = s.cells[id]!.owner ∧
    (L ≤ (s.cells[id]!.owner.1).length → s'.cells[id]!.count = s.cells[id]!.count)

theorem Ext.refl (L : Nat) (s : HState α) : Ext L s s := ⟨le_refl _, fun _ _ => ⟨rfl, rfl, fun _ => rfl⟩⟩

theorem Ext.trans {L : Nat} {s1 s2 s3 : HState α} (h1 : Ext L s1 s2) (h2 : Ext L s2 s3) : Ext L s1 s3 := by
  refine ⟨le_trans h1.1 h2.1, fun id hid => ?_⟩
  obtain ⟨a1, a2, a3⟩ := h1.2 id hid
  obtain ⟨b1, b2, b3⟩ := h2.2 id (lt_of_lt_of_le hid h1.1)
  refine ⟨b1.trans a1, b2.trans a2, fun hl => ?_⟩
  rw [b3 (by rw [a2]; exact hl), a3 hl]

theorem Ext.mono {L L' : Nat} {s s' : HState α} (h : Ext L s s') (hl : L ≤ L') : Ext L' s s' :=
  ⟨h.1, fun id hid => ⟨(h.2 id hid).1, (h.2 id hid).2.1, fun hh => (h.2 id hid).2.2 (le_trans hl hh)⟩⟩

/-- the cell was created by the node with key `K` or by a node below it -/
def OwnerOK (K o : NodeKey) : Prop := o.1 = K.1 ∧ K.2 <+: o.2

/-- a list of cell ids a node with key `K` may return -/
def GoodIds (K : NodeKey) (s : HState α) (ids : List Nat) : Prop :=
  ids.Nodup ∧ ∀ id ∈ ids, id < s.cells.size ∧ OwnerOK K (s.cells[id]!.owner)

theorem GoodIds.mono {K : NodeKey} {L : Nat} {s s' : HState α} {ids : List Nat} (h : GoodIds K s ids) (he : Ext L s s') :
    GoodIds K s' ids :=
  ⟨h.1, fun id hid => ⟨lt_of_lt_of_le (h.2 id hid).1 he.1, by rw [(he.2 id (h.2 id hid).1).2.1]; exact (h.2 id hid).2⟩⟩

/-- the state invariant: counts are never negative; cached lists are good for their key -/
def GInv (s : HState α) : Prop :=
  (∀ id < s.cells.size, 0 ≤ s.cells[id]!.count) ∧ (∀ p ∈ s.cache, GoodIds p.1 s p.2)

theorem newCell_run (o : NodeKey) (ivs : List (Ival α)) (cnt : Int) (s : HState α) :
    (HM.newCell o ivs cnt).run s = .ok (s.cells.size, { s with cells := s.cells.push ⟨ivs, cnt, o⟩ }) := rfl

theorem liftEx_run {β : Type} (e : Except String β) (s s' : HState α) (v : β) (h : (liftEx (α := α) e).run s = .ok (v, s')) :
    e = .ok v ∧ s = s' := by
  cases e with
  | error m => simp [liftEx, throw, throwThe, MonadExceptOf.throw, StateT.lift, StateT.run, bind, Except.bind] at h
  | ok w =>
    simp [liftEx, pure, StateT.pure, StateT.run, Except.pure] at h
    exact ⟨by rw [h.1], h.2⟩

/-- pushing a cell -/
theorem push_ext (L : Nat) (s : HState α) (b : BCell α) : Ext L s { s with cells := s.cells.push b } := by
  refine ⟨by simp, fun id hid => ?_⟩
  have : (s.cells.push b)[id]! = s.cells[id]! := by
    simp [Array.getElem!_eq_getD, Array.getD, Array.getElem_push, hid, Nat.lt_succ_of_lt hid]
  simp [this]

theorem push_ginv (s : HState α) (b : BCell α) (hb : 0 ≤ b.count) (h : GInv s) : GInv { s with cells := s.cells.push b } := by
  constructor
  · intro id hid
    simp only [Array.size_push] at hid
    by_cases h1 : id < s.cells.size
    · have : (s.cells.push b)[id]! = s.cells[id]! := by
        simp [Array.getElem!_eq_getD, Array.getD, Array.getElem_push, h1, Nat.lt_succ_of_lt h1]
      simp only [this]; exact h.1 id h1
    · have h2 : id = s.cells.size := by omega
      subst h2
      have : (s.cells.push b)[s.cells.size]! = b := by simp [Array.getElem!_eq_getD, Array.getD]
      simp only [this]; exact hb
  · intro p hp
    exact (h.2 p hp).mono (push_ext 0 s b)


/-- threading an invariant, a transitive state relation and a relation-monotone result property through `mapM` -/
theorem mapM_inv {β γ : Type} (f : β → HM α γ) (I : HState α → Prop) (Rel : HState α → HState α → Prop)
    (Q : β → γ → HState α → Prop) (hrefl : ∀ s, Rel s s) (htrans : ∀ s1 s2 s3, Rel s1 s2 → Rel s2 s3 → Rel s1 s3)
    (hmono : ∀ b y s s', Q b y s → Rel s s' → Q b y s') :
    ∀ (l : List β), (∀ b ∈ l, ∀ s y s', I s → (f b).run s = .ok (y, s') → I s' ∧ Rel s s' ∧ Q b y s') →
      ∀ s ys s', I s → (l.mapM f).run s = .ok (ys, s') →
        I s' ∧ Rel s s' ∧ List.Forall₂ (fun b y => Q b y s') l ys := by
  intro l
  induction l with
  | nil =>
    intro _ s ys s' hI h
    simp only [List.mapM_nil] at h
    obtain ⟨rfl, rfl⟩ := StateT_pure_ok _ _ _ _ h
    exact ⟨hI, hrefl _, List.Forall₂.nil⟩
  | cons a l ih =>
    intro hstep s ys s' hI h
    rw [List.mapM_cons] at h
    obtain ⟨y, s1, h1, h⟩ := StateT_bind_ok _ _ _ _ _ h
    obtain ⟨ys', s2, h2, h⟩ := StateT_bind_ok _ _ _ _ _ h
    obtain ⟨rfl, rfl⟩ := StateT_pure_ok _ _ _ _ h
    obtain ⟨hI1, hr1, hq1⟩ := hstep a (by simp) s y s1 hI h1
    obtain ⟨hI2, hr2, hq2⟩ := ih (fun b hb => hstep b (by simp [hb])) s1 ys' s2 hI1 h2
    exact ⟨hI2, htrans _ _ _ hr1 hr2, List.Forall₂.cons (hmono _ _ _ _ hq1 hr2) hq2⟩

/-- the released count of a node is at least `low_threshold` -/
theorem noisyCount_ge (E : Env α) (c : FCtx α) (n : Node α) (N : Int) (h : n.noisyCount E c = .ok N) : c.ap.supp.lt ≤ N := by
  unfold Node.noisyCount at h
  simp only at h
  split at h
  · cases h
  · simp only [Except.ok.injEq] at h
    rw [← h]; exact le_max_right _ _

theorem OwnerOK.refl (K : NodeKey) : OwnerOK K K := ⟨rfl, List.prefix_refl _⟩

theorem getElem!_push_size (cells : Array (BCell α)) (b : BCell α) : (cells.push b)[cells.size]! = b := by
  simp [Array.getElem!_eq_getD, Array.getD]

theorem getElem!_push_lt (cells : Array (BCell α)) (b : BCell α) (id : Nat) (h : id < cells.size) :
    (cells.push b)[id]! = cells[id]! := by
  simp [Array.getElem!_eq_getD, Array.getD, Array.getElem_push, h, Nat.lt_succ_of_lt h]

/-- a single fresh cell -/
theorem single_cell_spec (L : Nat) (K : NodeKey) (s : HState α) (ivs : List (Ival α)) (cnt : Int) (hc : 0 ≤ cnt) (h : GInv s) :
    Ext L s { s with cells := s.cells.push ⟨ivs, cnt, K⟩ } ∧ GInv { s with cells := s.cells.push ⟨ivs, cnt, K⟩ } ∧
    GoodIds K { s with cells := s.cells.push ⟨ivs, cnt, K⟩ } [s.cells.size] ∧
    sumCounts (s.cells.push ⟨ivs, cnt, K⟩) [s.cells.size] = cnt := by
  refine ⟨push_ext L s _, push_ginv s _ hc h, ⟨by simp, ?_⟩, ?_⟩
  · intro id hid
    rw [List.mem_singleton.mp hid]
    simp only [Array.size_push, getElem!_push_size]
    exact ⟨by omega, OwnerOK.refl K⟩
  · simp [sumCounts, getElem!_push_size]


/-- what every harvesting step guarantees about the state and the ids it returns for node `n` -/
def Spec (n : Node α) (s : HState α) (ids : List Nat) (s' : HState α) : Prop :=
  Ext (n.data.comb.length + 1) s s' ∧ GInv s' ∧ GoodIds (nodeKey n) s' ids

/-- conservation: nothing released, or the counts add up to the node's released count or one less -/
def Cons (E : Env α) (c : FCtx α) (n : Node α) (ids : List Nat) (s' : HState α) : Prop :=
  ids = [] ∨ ∃ N, n.noisyCount E c = .ok N ∧ (sumCounts s'.cells ids = N ∨ sumCounts s'.cells ids = N - 1)

/-- what `_refine_buckets` guarantees: fresh cells only, adding up to exactly the requested count -/
def RefineSpec (n : Node α) (count : Int) (s : HState α) (ids : List Nat) (s' : HState α) : Prop :=
  Ext n.data.comb.length s s' ∧ GInv s' ∧ GoodIds (nodeKey n) s' ids ∧ (∀ id ∈ ids, s.cells.size ≤ id) ∧
    sumCounts s'.cells ids = count

def NodeStmt (E : Env α) (c : FCtx α) (fuel : Nat) : Prop :=
  ∀ (n : Node α) (s : HState α) (ids : List Nat) (s' : HState α), Shape n → GInv s →
    (harvestNode E c fuel n).run s = .ok (ids, s') →
    Spec n s ids s' ∧ (s.cache.find? (fun p => p.1 == nodeKey n) = none → Cons E c n ids s')

def RefineStmt (E : Env α) (c : FCtx α) (fuel : Nat) : Prop :=
  ∀ (n : Node α) (count : Int) (s : HState α) (ids : List Nat) (s' : HState α), Shape n → GInv s → 0 ≤ count →
    (refineBuckets E c fuel n count).run s = .ok (ids, s') → RefineSpec n count s ids s'

def LeafStmt (E : Env α) (c : FCtx α) (fuel : Nat) : Prop :=
  ∀ (n : Node α) (s : HState α) (ids : List Nat) (s' : HState α), Shape n → GInv s →
    (harvestLeaf E c fuel n).run s = .ok (ids, s') → Spec n s ids s' ∧ Cons E c n ids s'

def BranchStmt (E : Env α) (c : FCtx α) (fuel : Nat) : Prop :=
  ∀ (d : NodeData α) (subs : List (Option (Node α))) (ch : List (Nat × Node α)) (s : HState α) (ids : List Nat)
    (s' : HState α), Shape (.branch d subs ch) → GInv s →
    (harvestBranch E c fuel (.branch d subs ch) ch).run s = .ok (ids, s') →
    Spec (.branch d subs ch) s ids s' ∧ Cons E c (.branch d subs ch) ids s'

theorem Spec.nil (n : Node α) (s : HState α) (h : GInv s) : Spec n s [] s :=
  ⟨Ext.refl _ _, h, ⟨List.nodup_nil, fun _ h => by simp at h⟩⟩

/-- `_harvest_leaf`, given `_refine_buckets` -/
theorem leaf_of_refine (E : Env α) (c : FCtx α) (hlt : 0 ≤ c.ap.supp.lt) (fuel : Nat) (hR : RefineStmt E c fuel) :
    LeafStmt E c fuel := by
  intro n s ids s' hsh hG h0
  unfold harvestLeaf at h0
  by_cases hover : n.overThreshold E c c.ap.supp.lt = true
  · rw [if_pos hover] at h0
    obtain ⟨N, s1, h1, h⟩ := StateT_bind_ok _ _ _ _ _ h0
    clear h0
    obtain ⟨hN, rfl⟩ := liftEx_run _ _ _ _ h1
    have hN0 : 0 ≤ N := le_trans hlt (noisyCount_ge E c n N hN)
    by_cases hs : (n.isSing || n.dims == 1) = true
    · rw [if_pos hs] at h
      obtain ⟨id, s2, h2, h3⟩ := StateT_bind_ok _ _ _ _ _ h
      clear h
      rw [newCell_run] at h2
      simp only [Except.ok.injEq, Prod.mk.injEq] at h2
      obtain ⟨rfl, rfl⟩ := h2
      obtain ⟨rfl, rfl⟩ := StateT_pure_ok _ _ _ _ h3
      obtain ⟨e1, e2, e3, e4⟩ := single_cell_spec (n.data.comb.length + 1) (nodeKey n) s n.bucketIntervals N hN0 hG
      exact ⟨⟨e1, e2, e3⟩, Or.inr ⟨N, hN, Or.inl e4⟩⟩
    · rw [if_neg hs] at h
      obtain ⟨e1, e2, e3, _, hsum⟩ := hR n N s ids s' hsh hG hN0 h
      exact ⟨⟨e1.mono (Nat.le_succ _), e2, e3⟩, Or.inr ⟨N, hN, Or.inl hsum⟩⟩
  · rw [if_neg hover] at h0
    obtain ⟨rfl, rfl⟩ := StateT_pure_ok _ _ _ _ h0
    exact ⟨Spec.nil n s hG, Or.inl rfl⟩


theorem randint_run (hi : Int) (s s' : HState α) (v : Nat) (h : (HM.randint (α := α) hi).run s = .ok (v, s')) :
    s'.cells = s.cells ∧ s'.cache = s.cache := by
  unfold HM.randint at h
  by_cases h1 : hi < 0
  · simp [h1, throw, throwThe, MonadExceptOf.throw, StateT.lift, StateT.run, bind, StateT.bind, Except.bind] at h
  · simp only [h1, if_false] at h
    cases hst : s.stream with
    | nil =>
      simp [hst, get, getThe, MonadStateOf.get, StateT.get, bind, StateT.bind, Except.bind, StateT.run, pure, Except.pure,
        throw, throwThe, MonadExceptOf.throw, StateT.lift] at h
    | cons x rest =>
      by_cases h2 : (x : Int) > hi
      · simp [hst, h2, get, getThe, MonadStateOf.get, StateT.get, bind, StateT.bind, Except.bind, StateT.run, pure, Except.pure,
          throw, throwThe, MonadExceptOf.throw, StateT.lift] at h
      · simp [hst, h2, get, getThe, MonadStateOf.get, StateT.get, bind, StateT.bind, Except.bind, StateT.run, pure, Except.pure,
          set, StateT.set, StateT.pure] at h
        obtain ⟨_, rfl⟩ := h
        exact ⟨rfl, rfl⟩

theorem cell_run (id : Nat) (s : HState α) : (HM.cell (α := α) id).run s = .ok (s.cells[id]!, s) := rfl

/-- reading cells does not change the state -/
theorem mapM_cell_state (ids : List Nat) (s s' : HState α) (r : List (BCell α))
    (h : (ids.mapM (HM.cell (α := α))).run s = .ok (r, s')) : s' = s := by
  have := mapM_inv (HM.cell (α := α)) (fun _ => True) (fun a b => b = a) (fun _ _ _ => True) (fun _ => rfl)
    (fun _ _ _ h1 h2 => h2.trans h1) (fun _ _ _ _ _ _ => trivial) ids
    (fun b _ s y s' _ hr => by rw [cell_run] at hr; simp only [Except.ok.injEq, Prod.mk.injEq] at hr; exact ⟨trivial, hr.2.symm, trivial⟩)
    s r s' trivial h
  exact this.2.1

theorem mapM_mapM_cell_state (idss : List (List Nat)) (s s' : HState α) (r : List (List (BCell α)))
    (h : (idss.mapM (fun (ids : List Nat) => ids.mapM (HM.cell (α := α)))).run s = .ok (r, s')) : s' = s := by
  have := mapM_inv (fun (ids : List Nat) => ids.mapM (HM.cell (α := α))) (fun _ => True) (fun a b => b = a) (fun _ _ _ => True) (fun _ => rfl)
    (fun _ _ _ h1 h2 => h2.trans h1) (fun _ _ _ _ _ _ => trivial) idss
    (fun b _ s y s' _ hr => ⟨trivial, mapM_cell_state b s s' y hr, trivial⟩)
    s r s' trivial h
  exact this.2.1


/-- a run of allocations: every step appends exactly one cell of count 1 owned by `K` and returns its id -/
theorem mapM_alloc {β : Type} (f : β → HM α Nat) (K : NodeKey)
    (hstep : ∀ b s id s', (f b).run s = .ok (id, s') → id = s.cells.size ∧ s'.cache = s.cache ∧
      ∃ ivs, s'.cells = s.cells.push ⟨ivs, 1, K⟩) :
    ∀ (l : List β) (s : HState α) (ids : List Nat) (s' : HState α), (l.mapM f).run s = .ok (ids, s') →
      ids = List.range' s.cells.size l.length ∧ s'.cells.size = s.cells.size + l.length ∧ s'.cache = s.cache ∧
      (∀ id < s.cells.size, s'.cells[id]! = s.cells[id]!) ∧
      (∀ id, s.cells.size ≤ id → id < s'.cells.size → s'.cells[id]!.count = 1 ∧ s'.cells[id]!.owner = K) := by
  intro l
  induction l with
  | nil =>
    intro s ids s' h
    simp only [List.mapM_nil] at h
    obtain ⟨rfl, rfl⟩ := StateT_pure_ok _ _ _ _ h
    exact ⟨rfl, rfl, rfl, fun _ _ => rfl, fun id h1 h2 => by omega⟩
  | cons a l ih =>
    intro s ids s' h
    rw [List.mapM_cons] at h
    obtain ⟨y, s1, h1, h2⟩ := StateT_bind_ok _ _ _ _ _ h
    obtain ⟨ys, s2, h3, h4⟩ := StateT_bind_ok _ _ _ _ _ h2
    obtain ⟨rfl, rfl⟩ := StateT_pure_ok _ _ _ _ h4
    obtain ⟨rfl, hc1, ivs, hcells⟩ := hstep a s y s1 h1
    obtain ⟨rfl, hsz, hc2, hold, hnew⟩ := ih s1 ys s2 h3
    have hs1 : s1.cells.size = s.cells.size + 1 := by rw [hcells]; simp
    refine ⟨?_, by rw [hsz, hs1]; simp; omega, hc2.trans hc1, ?_, ?_⟩
    · rw [hs1]; simp [List.range'_succ]
    · intro id hid
      rw [hold id (by rw [hs1]; omega), hcells, getElem!_push_lt _ _ _ hid]
    · intro id h1' h2'
      by_cases he : id = s.cells.size
      · subst he
        rw [hold _ (by rw [hs1]; omega), hcells, getElem!_push_size]
        exact ⟨rfl, rfl⟩
      · exact hnew id (by rw [hs1]; omega) h2'

theorem sum_map_const_one (l : List Nat) (g : Nat → Int) (h : ∀ x ∈ l, g x = 1) : (l.map g).sum = l.length := by
  induction l with
  | nil => rfl
  | cons a l ih =>
    simp only [List.map_cons, List.sum_cons, List.length_cons]
    rw [h a (by simp), ih (fun x hx => h x (by simp [hx]))]
    push_cast; ring

/-- `_match_subintervals`: `count` fresh cells of count 1 owned by the refined node -/
theorem matchSub_spec (L : Nat) (K : NodeKey) (count : Int) (hc : 0 ≤ count) (perDim : List (List (Ival α × Int)))
    (perSub : List (List (List (Ival α) × Int))) (s : HState α) (ids : List Nat) (s' : HState α) (hG : GInv s)
    (h : (matchSubintervals K count perDim perSub).run s = .ok (ids, s')) :
    Ext L s s' ∧ GInv s' ∧ GoodIds K s' ids ∧ (∀ id ∈ ids, s.cells.size ≤ id) ∧ sumCounts s'.cells ids = count := by
  unfold matchSubintervals at h
  obtain ⟨hids, hsz, hcache, hold, hnew⟩ := mapM_alloc _ K (by
    intro b s id s' hr
    obtain ⟨a, s1, h1, hr⟩ := StateT_bind_ok _ _ _ _ _ hr
    obtain ⟨b', s2, h2, hr⟩ := StateT_bind_ok _ _ _ _ _ hr
    obtain ⟨c1, c2⟩ := randint_run _ _ _ _ h1
    obtain ⟨c3, c4⟩ := randint_run _ _ _ _ h2
    split at hr
    · rw [newCell_run] at hr
      simp only [Except.ok.injEq, Prod.mk.injEq] at hr
      obtain ⟨rfl, rfl⟩ := hr
      exact ⟨by rw [c3, c1], by simp [c4, c2], _, by rw [c3, c1]⟩
    · simp [throw, throwThe, MonadExceptOf.throw, StateT.lift, StateT.run, bind, Except.bind] at hr) _ s ids s' h
  simp only [List.length_range] at hids hsz
  have hext : Ext L s s' := by
    refine ⟨by omega, fun id hid => ?_⟩
    rw [hold id hid]; exact ⟨rfl, rfl, fun _ => rfl⟩
  have hmem : ∀ id ∈ ids, s.cells.size ≤ id ∧ id < s'.cells.size := by
    intro id hid
    rw [hids, List.mem_range'_1] at hid
    omega
  refine ⟨hext, ⟨?_, ?_⟩, ⟨?_, ?_⟩, fun id hid => (hmem id hid).1, ?_⟩
  · intro id hid
    by_cases h1 : id < s.cells.size
    · rw [hold id h1]; exact hG.1 id h1
    · rw [(hnew id (by omega) hid).1]; norm_num
  · intro p hp
    rw [hcache] at hp
    exact (hG.2 p hp).mono hext
  · rw [hids]; exact List.nodup_range'
  · intro id hid
    obtain ⟨h1, h2⟩ := hmem id hid
    exact ⟨h2, by rw [(hnew id h1 h2).2]; exact OwnerOK.refl K⟩
  · unfold sumCounts
    rw [sum_map_const_one ids _ (fun id hid => (hnew id (hmem id hid).1 (hmem id hid).2).1), hids]
    simp only [List.length_range']
    omega


/-- sub-nodes of a well-shaped node are well-shaped and have fewer columns -/
theorem Shape.subnode {n s : Node α} (h : Shape n) (hm : some s ∈ n.subnodes) :
    Shape s ∧ s.data.comb.length + 1 ≤ n.data.comb.length := by
  obtain ⟨k, hk, hks⟩ := List.mem_iff_getElem.mp hm
  have hk' : n.subnodes[k]? = some (some s) := by rw [List.getElem?_eq_getElem hk, hks]
  cases h with
  | leaf d subs rows _ hC hS =>
    obtain ⟨hkl, hc, _⟩ := hC k s hk'
    exact ⟨hS k s hk', by show s.data.comb.length + 1 ≤ d.comb.length; rw [hc, List.length_eraseIdx]; split_ifs <;> omega⟩
  | branch d subs ch _ hC hS _ _ _ =>
    obtain ⟨hkl, hc, _⟩ := hC k s hk'
    exact ⟨hS k s hk', by show s.data.comb.length + 1 ≤ d.comb.length; rw [hc, List.length_eraseIdx]; split_ifs <;> omega⟩

/-- the single-cell fallback of `_refine_buckets` -/
theorem fallback_spec (n : Node α) (count : Int) (hc : 0 ≤ count) (s : HState α) (ids : List Nat) (s' : HState α) (hG : GInv s)
    (h : (do let id ← HM.newCell (α := α) (nodeKey n) n.bucketIntervals count; pure [id] : HM α (List Nat)).run s = .ok (ids, s')) :
    Ext n.data.comb.length s s' ∧ GInv s' ∧ GoodIds (nodeKey n) s' ids ∧ (∀ id ∈ ids, s.cells.size ≤ id) ∧
      sumCounts s'.cells ids = count := by
  obtain ⟨id, s2, h2, h3⟩ := StateT_bind_ok _ _ _ _ _ h
  rw [newCell_run] at h2
  simp only [Except.ok.injEq, Prod.mk.injEq] at h2
  obtain ⟨rfl, rfl⟩ := h2
  obtain ⟨rfl, rfl⟩ := StateT_pure_ok _ _ _ _ h3
  obtain ⟨e1, e2, e3, e4⟩ := single_cell_spec n.data.comb.length (nodeKey n) s n.bucketIntervals count hc hG
  exact ⟨e1, e2, e3, fun id hid => by rw [List.mem_singleton.mp hid], e4⟩

/-- `_refine_buckets`, given `_harvest_node` one level down -/
theorem refine_of_node (E : Env α) (c : FCtx α) (hlt : 0 ≤ c.ap.supp.lt) (fuel : Nat) (hN : NodeStmt E c fuel) :
    RefineStmt E c (fuel + 1) := by
  intro n count s ids s' hsh hG hc h
  rw [refineBuckets] at h
  obtain ⟨subIds, s1, h1, h2⟩ := StateT_bind_ok _ _ _ _ _ h
  clear h
  -- collecting the sub-buckets: allocations and harvests of lower-dimensional nodes
  obtain ⟨hG1, hE1, _⟩ := mapM_inv _ GInv (Ext n.data.comb.length) (fun _ _ _ => True) (Ext.refl _)
    (fun _ _ _ => Ext.trans) (fun _ _ _ _ _ _ => trivial) _ (by
      intro b hb s0 y s0' hG0 hr
      obtain ⟨sub, comb⟩ := b
      simp only at hr
      split_ifs at hr with hsing
      · obtain ⟨cnt, s2, h3, hr⟩ := StateT_bind_ok _ _ _ _ _ hr
        obtain ⟨hN', rfl⟩ := liftEx_run _ _ _ _ h3
        obtain ⟨id, s3, h4, hr⟩ := StateT_bind_ok _ _ _ _ _ hr
        rw [newCell_run] at h4
        simp only [Except.ok.injEq, Prod.mk.injEq] at h4
        obtain ⟨rfl, rfl⟩ := h4
        obtain ⟨rfl, rfl⟩ := StateT_pure_ok _ _ _ _ hr
        have hc0 : 0 ≤ cnt := le_trans hlt (noisyCount_ge E c n cnt hN')
        exact ⟨push_ginv _ _ hc0 hG0, push_ext _ _ _, trivial⟩
      · cases sub with
        | none =>
          obtain ⟨rfl, rfl⟩ := StateT_pure_ok _ _ _ _ hr
          exact ⟨hG0, Ext.refl _ _, trivial⟩
        | some sn =>
          have hm : some sn ∈ n.subnodes := (List.of_mem_zip hb).1
          obtain ⟨hsh', hlen⟩ := hsh.subnode hm
          obtain ⟨⟨e1, e2, _⟩, _⟩ := hN sn s0 y s0' hsh' hG0 hr
          exact ⟨e2, e1.mono hlen, trivial⟩) s subIds s1 hG h1
  have finish : ∀ (ids : List Nat) (s' : HState α),
      (Ext n.data.comb.length s1 s' ∧ GInv s' ∧ GoodIds (nodeKey n) s' ids ∧ (∀ id ∈ ids, s1.cells.size ≤ id) ∧
        sumCounts s'.cells ids = count) → RefineSpec n count s ids s' := by
    intro ids s' ⟨e1, e2, e3, e4, e5⟩
    exact ⟨hE1.trans e1, e2, e3, fun id hid => le_trans hE1.1 (e4 id hid), e5⟩
  by_cases ha : subIds.any List.isEmpty = true
  · simp only [ha, if_true] at h2
    exact finish _ _ (fallback_spec n count hc s1 ids s' hG1 h2)
  · simp only [ha, Bool.false_eq_true, if_false] at h2
    obtain ⟨subb, s2, h3, h5⟩ := StateT_bind_ok _ _ _ _ _ h2
    clear h2
    have := mapM_mapM_cell_state _ _ _ _ h3
    subst this
    obtain ⟨sm0, s3, h4, h6⟩ := StateT_bind_ok _ _ _ _ _ h5
    clear h5
    obtain ⟨_, rfl⟩ := liftEx_run _ _ _ _ h4
    split_ifs at h6 with hb
    · exact finish _ _ (fallback_spec n count hc _ ids s' hG1 h6)
    · exact finish _ _ (matchSub_spec _ _ count hc _ _ _ ids s' hG1 h6)


theorem getElem!_modify (cells : Array (BCell α)) (i j : Nat) (f : BCell α → BCell α) (hj : j < cells.size) :
    (cells.modify i f)[j]! = if i = j then f cells[j]! else cells[j]! := by
  have h1 : (cells.modify i f)[j]! = ((cells.modify i f)[j]?).getD default := by simp [Array.getElem!_eq_getD, Array.getD]; split <;> simp_all
  have h2 : cells[j]! = (cells[j]?).getD default := by simp [Array.getElem!_eq_getD, Array.getD]; split <;> simp_all
  rw [h1, Array.getElem?_modify, h2]
  have : cells[j]? = some cells[j] := Array.getElem?_eq_getElem hj
  split_ifs <;> simp [this]

/-- the in-place count updates of `_adjust_counts` -/
theorem setCounts_spec : ∀ (pairs : List (Nat × Int)) (cells : Array (BCell α)), (pairs.map (·.1)).Nodup →
    (∀ p ∈ pairs, p.1 < cells.size) →
    (HM.setCounts cells pairs).size = cells.size ∧
    (∀ id < cells.size, id ∉ pairs.map (·.1) → (HM.setCounts cells pairs)[id]! = cells[id]!) ∧
    (∀ p ∈ pairs, (HM.setCounts cells pairs)[p.1]! = { cells[p.1]! with count := p.2 }) := by
  intro pairs
  induction pairs with
  | nil => intro cells _ _; simp [HM.setCounts]
  | cons q rest ih =>
    intro cells hnd hv
    rw [List.map_cons, List.nodup_cons] at hnd
    have hsz : (cells.modify q.1 (fun b => { b with count := q.2 })).size = cells.size := Array.size_modify
    obtain ⟨i1, i2, i3⟩ := ih (cells.modify q.1 (fun b => { b with count := q.2 })) hnd.2
      (fun p hp => by rw [hsz]; exact hv p (by simp [hp]))
    have e : HM.setCounts cells (q :: rest) = HM.setCounts (cells.modify q.1 (fun b => { b with count := q.2 })) rest := by
      simp [HM.setCounts]
    rw [e]
    refine ⟨i1.trans hsz, ?_, ?_⟩
    · intro id hid hnot
      simp only [List.map_cons, List.mem_cons, not_or] at hnot
      rw [i2 id (by rw [hsz]; exact hid) hnot.2, getElem!_modify _ _ _ _ hid, if_neg (Ne.symm hnot.1)]
    · intro p hp
      rcases List.mem_cons.mp hp with rfl | hp
      · have hq := hv p (by simp)
        rw [i2 p.1 (by rw [hsz]; exact hq) hnd.1, getElem!_modify _ _ _ _ hq, if_pos rfl]
      · have hpv := hv p (by simp [hp])
        have hne : q.1 ≠ p.1 := by
          intro he
          exact hnd.1 (by rw [he]; exact List.mem_map.mpr ⟨p, hp, rfl⟩)
        rw [i3 p hp, getElem!_modify _ _ _ _ hpv, if_neg hne]


theorem forall₂_mem_right {β γ : Type} {R : β → γ → Prop} {l : List β} {r : List γ} (h : List.Forall₂ R l r) :
    ∀ y ∈ r, ∃ x ∈ l, R x y := by
  induction h with
  | nil => simp
  | cons hab _ ih =>
    intro y hy
    rcases List.mem_cons.mp hy with rfl | hy
    · exact ⟨_, by simp, hab⟩
    · obtain ⟨x, hx, hr⟩ := ih y hy
      exact ⟨x, by simp [hx], hr⟩

theorem forall₂_pairwise {β γ : Type} {R : β → γ → Prop} {P : β → β → Prop} {Q : γ → γ → Prop} {l : List β} {r : List γ}
    (h : List.Forall₂ R l r) (hp : l.Pairwise P) (hq : ∀ a b x y, R a x → R b y → P a b → Q x y) : r.Pairwise Q := by
  induction h with
  | nil => exact List.Pairwise.nil
  | cons hab hrest ih =>
    rw [List.pairwise_cons] at hp ⊢
    refine ⟨?_, ih hp.2⟩
    intro y hy
    obtain ⟨x, hx, hr⟩ := forall₂_mem_right hrest y hy
    exact hq _ _ _ _ hab hr (hp.1 x hx)

theorem sumCounts_append (cells : Array (BCell α)) (a b : List Nat) : sumCounts cells (a ++ b) = sumCounts cells a + sumCounts cells b := by
  simp [sumCounts]

theorem sumCounts_congr (c1 c2 : Array (BCell α)) (ids : List Nat) (h : ∀ id ∈ ids, c2[id]!.count = c1[id]!.count) :
    sumCounts c2 ids = sumCounts c1 ids := by
  unfold sumCounts
  congr 1
  exact List.map_congr_left h

theorem sumCounts_nonneg (cells : Array (BCell α)) (ids : List Nat) (h : ∀ id ∈ ids, 0 ≤ cells[id]!.count) : 0 ≤ sumCounts cells ids := by
  unfold sumCounts
  apply List.sum_nonneg
  intro x hx
  obtain ⟨id, hid, rfl⟩ := List.mem_map.mp hx
  exact h id hid

/-- the concatenated bucket lists of the children of a branch are a good list for the branch -/
theorem flatten_good (d : NodeData α) (subs : List (Option (Node α))) (ch : List (Nat × Node α)) (s : HState α)
    (idss : List (List Nat)) (hsh : Shape (.branch d subs ch))
    (h : List.Forall₂ (fun p y => GoodIds (nodeKey p.2) s y) ch idss) :
    GoodIds (nodeKey (.branch d subs ch)) s idss.flatten := by
  cases hsh with
  | branch _ _ _ _ _ _ hkeys hchild _ =>
  have hkey : ∀ p ∈ ch, nodeKey p.2 = (d.comb, d.path ++ [p.1]) := by
    intro p hp
    obtain ⟨h1, h2, _⟩ := hchild p hp
    simp [nodeKey, h1, h2]
  constructor
  · rw [List.nodup_flatten]
    constructor
    · intro y hy
      obtain ⟨p, _, hg⟩ := forall₂_mem_right h y hy
      exact hg.1
    · have hpk : ch.Pairwise (fun a b => a.1 ≠ b.1 ∧ a ∈ ch ∧ b ∈ ch) := by
        have h1 : ch.Pairwise (fun a b => a.1 ≠ b.1) := (List.pairwise_map.mp hkeys)
        have h2 : ch.Pairwise (fun a b => a ∈ ch ∧ b ∈ ch) := List.pairwise_of_forall_mem_list (fun a ha b hb => ⟨ha, hb⟩) |>.imp id
        exact h1.and h2 |>.imp (fun ⟨x, y⟩ => ⟨x, y.1, y.2⟩)
      refine forall₂_pairwise h hpk ?_
      intro a b x y ha hb ⟨hne, hma, hmb⟩ id hx hy
      have oa := (ha.2 id hx).2
      have ob := (hb.2 id hy).2
      rw [hkey a hma] at oa
      rw [hkey b hmb] at ob
      have hpa := oa.2
      have hpb := ob.2
      simp only at hpa hpb
      have := List.prefix_of_prefix_length_le hpa hpb (by simp)
      have e := List.IsPrefix.eq_of_length this (by simp)
      have := List.append_cancel_left e
      simp only [List.cons.injEq, and_true] at this
      exact hne this
  · intro id hid
    obtain ⟨y, hy, hidy⟩ := List.mem_flatten.mp hid
    obtain ⟨p, hp, hg⟩ := forall₂_mem_right h y hy
    obtain ⟨hv, ho⟩ := hg.2 id hidy
    rw [hkey p hp] at ho
    refine ⟨hv, ho.1, ?_⟩
    exact List.IsPrefix.trans (List.prefix_append _ _) ho.2


theorem get_run (s : HState α) : (get : HM α (HState α)).run s = .ok (s, s) := rfl

theorem modify_run (f : HState α → HState α) (s : HState α) : (modify f : HM α Unit).run s = .ok ((), f s) := rfl

/-- `_harvest_branch`, given `_harvest_node` and `_refine_buckets` one level down -/
theorem branch_of_node (E : Env α) (c : FCtx α) (hlt : 0 ≤ c.ap.supp.lt) (fuel : Nat) (hN : NodeStmt E c fuel)
    (hR : RefineStmt E c fuel) : BranchStmt E c (fuel + 1) := by
  intro d subs ch s ids s' hsh hG h
  rw [harvestBranch] at h
  obtain ⟨idss, s1, h1, h2⟩ := StateT_bind_ok _ _ _ _ _ h
  clear h
  have hchild : ∀ p ∈ ch, Shape p.2 ∧ p.2.data.comb.length = d.comb.length := by
    cases hsh with
    | branch _ _ _ _ _ _ _ hc hs => exact fun p hp => ⟨hs p hp, by rw [(hc p hp).1]⟩
  -- the children
  obtain ⟨hG1, hE1, hF⟩ := mapM_inv _ GInv (Ext (d.comb.length + 1)) (fun (p : Nat × Node α) (y : List Nat) (s : HState α) => GoodIds (nodeKey p.2) s y) (Ext.refl _)
    (fun _ _ _ => Ext.trans) (fun _ _ _ _ hq hr => GoodIds.mono (L := d.comb.length + 1) hq hr) ch (by
      intro p hp s0 y s0' hG0 hr
      obtain ⟨⟨e1, e2, e3⟩, _⟩ := hN p.2 s0 y s0' (hchild p hp).1 hG0 hr
      rw [(hchild p hp).2] at e1
      exact ⟨e2, e1, e3⟩) s idss s1 hG h1
  have hgood := flatten_good d subs ch s1 idss hsh hF
  obtain ⟨ids0, hids0⟩ : ∃ ids0, ids0 = idss.flatten := ⟨_, rfl⟩
  rw [← hids0] at hgood h2
  obtain ⟨sg, s1', h3, h4⟩ := StateT_bind_ok _ _ _ _ _ h2
  clear h2
  rw [get_run] at h3
  simp only [Except.ok.injEq, Prod.mk.injEq] at h3
  obtain ⟨rfl, rfl⟩ := h3
  obtain ⟨N, s2, h5, h6⟩ := StateT_bind_ok _ _ _ _ _ h4
  clear h4
  obtain ⟨hNc, rfl⟩ := liftEx_run _ _ _ _ h5
  have hN0 : 0 ≤ N := le_trans hlt (noisyCount_ge E c _ N hNc)
  have hcc0 : 0 ≤ sumCounts s1.cells ids0 :=
    sumCounts_nonneg _ _ (fun id hid => hG1.1 id (hgood.2 id hid).1)
  have hL : (Node.branch d subs ch).data.comb.length = d.comb.length := rfl
  by_cases hlow : 2 * sumCounts s1.cells ids0 < N
  · rw [if_pos hlow] at h6
    by_cases h1d : ((Node.branch d subs ch).dims == 1) = true
    · rw [if_pos h1d] at h6
      obtain ⟨id, s3, h7, h8⟩ := StateT_bind_ok _ _ _ _ _ h6
      rw [newCell_run] at h7
      simp only [Except.ok.injEq, Prod.mk.injEq] at h7
      obtain ⟨rfl, rfl⟩ := h7
      obtain ⟨rfl, rfl⟩ := StateT_pure_ok _ _ _ _ h8
      obtain ⟨e1, e2, e3, e4⟩ := single_cell_spec (d.comb.length + 1) (nodeKey (.branch d subs ch)) s1
        (Node.branch d subs ch).bucketIntervals N hN0 hG1
      exact ⟨⟨hE1.trans e1, e2, e3⟩, Or.inr ⟨N, hNc, Or.inl e4⟩⟩
    · rw [if_neg h1d] at h6
      obtain ⟨rids, s3, h7, h8⟩ := StateT_bind_ok _ _ _ _ _ h6
      obtain ⟨rfl, rfl⟩ := StateT_pure_ok _ _ _ _ h8
      obtain ⟨e1, e2, e3, e4, e5⟩ := hR (.branch d subs ch) (N - sumCounts s1.cells ids0) s1 rids s3 hsh hG1
        (by omega) h7
      have hgood3 := hgood.mono e1
      refine ⟨⟨hE1.trans (e1.mono (Nat.le_succ _)), e2, ⟨?_, ?_⟩⟩, Or.inr ⟨N, hNc, Or.inl ?_⟩⟩
      · rw [List.nodup_append]
        refine ⟨hgood.1, e3.1, ?_⟩
        intro a ha b hb hab
        have := (hgood.2 a ha).1
        have := e4 b hb
        omega
      · intro id hid
        rcases List.mem_append.mp hid with hid | hid
        · exact hgood3.2 id hid
        · exact e3.2 id hid
      · rw [sumCounts_append, e5]
        have : sumCounts s3.cells ids0 = sumCounts s1.cells ids0 := by
          apply sumCounts_congr
          intro id hid
          obtain ⟨hv, ho⟩ := hgood.2 id hid
          refine (e1.2 id hv).2.2 ?_
          rw [ho.1]; exact le_refl _
        rw [this]; ring
  · rw [if_neg hlow] at h6
    by_cases hz : (sumCounts s1.cells ids0 == 0) = true
    · rw [if_pos hz] at h6
      simp [throw, throwThe, MonadExceptOf.throw, StateT.lift, StateT.run, bind, Except.bind, StateT.bind] at h6
    · rw [if_neg hz] at h6
      have hccpos : 0 < sumCounts s1.cells ids0 := by
        have : sumCounts s1.cells ids0 ≠ 0 := by simpa using hz
        omega
      obtain ⟨u, s3, h7, h8⟩ := StateT_bind_ok _ _ _ _ _ h6
      rw [modify_run] at h7
      simp only [Except.ok.injEq, Prod.mk.injEq] at h7
      obtain ⟨_, rfl⟩ := h7
      obtain ⟨rfl, rfl⟩ := StateT_pure_ok _ _ _ _ h8
      -- the rescaled counts
      obtain ⟨a1, a2, a3⟩ := C10_adjust_sum_core (α := α) (ids0.map (fun id => s1.cells[id]!.count))
        (sumCounts s1.cells ids0) N
        (by intro x hx; obtain ⟨id, hid, rfl⟩ := List.mem_map.mp hx; exact hG1.1 id (hgood.2 id hid).1) rfl hccpos hN0
      set cs' := adjustCountsPure (α := α) (ids0.map (fun id => s1.cells[id]!.count)) (sumCounts s1.cells ids0) N
        with hcs'
      have hlen : cs'.length = ids0.length := by rw [a2]; simp
      have hzipfst : (List.zip ids0 cs').map (·.1) = ids0 := by
        rw [List.map_fst_zip]; omega
      obtain ⟨b1, b2, b3⟩ := setCounts_spec (List.zip ids0 cs') s1.cells (by rw [hzipfst]; exact hgood.1)
        (fun p hp => (hgood.2 p.1 (by rw [← hzipfst]; exact List.mem_map.mpr ⟨p, hp, rfl⟩)).1)
      have hext : Ext (d.comb.length + 1) s1 { s1 with cells := HM.setCounts s1.cells (List.zip ids0 cs') } := by
        refine ⟨by simp [b1], fun id hid => ?_⟩
        by_cases hin : id ∈ ids0
        · obtain ⟨p, hp, hpid⟩ : ∃ p ∈ List.zip ids0 cs', p.1 = id := by
            rw [← hzipfst] at hin
            obtain ⟨p, hp, h⟩ := List.mem_map.mp hin
            exact ⟨p, hp, h⟩
          subst hpid
          simp only
          rw [b3 p hp]
          refine ⟨rfl, rfl, fun hl => ?_⟩
          have := (hgood.2 p.1 hin).2.1
          rw [this] at hl
          simp only [nodeKey, Node.data] at hl
          omega
        · simp only
          rw [b2 id hid (by rw [hzipfst]; exact hin)]
          exact ⟨rfl, rfl, fun _ => rfl⟩
      have hsum : sumCounts (HM.setCounts s1.cells (List.zip ids0 cs')) ids0 = cs'.sum := by
        unfold sumCounts
        congr 1
        apply List.ext_getElem
        · simp [hlen]
        · intro i hi1 hi2
          have hi : i < ids0.length := by simpa using hi1
          have hic : i < cs'.length := by rw [hlen]; exact hi
          have hm : (ids0[i], cs'[i]) ∈ List.zip ids0 cs' := by
            rw [List.mem_iff_getElem]
            exact ⟨i, by simp [hlen, hi], by simp⟩
          have := b3 _ hm
          simp only at this
          rw [List.getElem_map, this]
      refine ⟨⟨hE1.trans hext, ⟨?_, ?_⟩, hgood.mono hext⟩, Or.inr ⟨N, hNc, ?_⟩⟩
      · intro id hid
        simp only [b1] at hid
        by_cases hin : id ∈ ids0
        · obtain ⟨p, hp, hpid⟩ : ∃ p ∈ List.zip ids0 cs', p.1 = id := by
            rw [← hzipfst] at hin
            obtain ⟨p, hp, h⟩ := List.mem_map.mp hin
            exact ⟨p, hp, h⟩
          subst hpid
          simp only
          rw [b3 p hp]
          exact a1 p.2 (List.of_mem_zip hp).2
        · simp only
          rw [b2 id hid (by rw [hzipfst]; exact hin)]
          exact hG1.1 id hid
      · intro p hp
        exact (hG1.2 p hp).mono hext
      · simp only
        rw [hsum]
        exact a3


/-- `_harvest_node` (cache look-up, then leaf or branch), given the two one level down -/
theorem node_of_leaf_branch (E : Env α) (c : FCtx α) (fuel : Nat) (hL : LeafStmt E c fuel) (hB : BranchStmt E c fuel) :
    NodeStmt E c (fuel + 1) := by
  intro n s ids s' hsh hG h
  rw [harvestNode] at h
  obtain ⟨sg, s0, h1, h2⟩ := StateT_bind_ok _ _ _ _ _ h
  clear h
  rw [get_run] at h1
  simp only [Except.ok.injEq, Prod.mk.injEq] at h1
  obtain ⟨rfl, rfl⟩ := h1
  cases hf : s.cache.find? (fun p => p.1 == nodeKey n) with
  | some hit =>
    rw [hf] at h2
    obtain ⟨rfl, rfl⟩ := StateT_pure_ok _ _ _ _ h2
    have hm := List.mem_of_find?_eq_some hf
    have hk : hit.1 = nodeKey n := by simpa using List.find?_some hf
    have := hG.2 hit hm
    rw [hk] at this
    exact ⟨⟨Ext.refl _ _, hG, this⟩, fun hnone => by simp at hnone⟩
  | none =>
    rw [hf] at h2
    have finish : ∀ (ids1 : List Nat) (s1 : HState α), Spec n s ids1 s1 ∧ Cons E c n ids1 s1 →
        (do modify (fun (s : HState α) => { s with cache := (nodeKey n, ids1) :: s.cache }); pure ids1 : HM α (List Nat)).run s1
          = .ok (ids, s') → Spec n s ids s' ∧ (none = (none : Option (NodeKey × List Nat)) → Cons E c n ids s') := by
      intro ids1 s1 ⟨⟨e1, e2, e3⟩, hcons⟩ hr
      obtain ⟨u, s2, h5, h6⟩ := StateT_bind_ok _ _ _ _ _ hr
      rw [modify_run] at h5
      simp only [Except.ok.injEq, Prod.mk.injEq] at h5
      obtain ⟨_, rfl⟩ := h5
      obtain ⟨rfl, rfl⟩ := StateT_pure_ok _ _ _ _ h6
      have hext : Ext (n.data.comb.length + 1) s1 { s1 with cache := (nodeKey n, ids1) :: s1.cache } :=
        ⟨le_refl _, fun _ _ => ⟨rfl, rfl, fun _ => rfl⟩⟩
      refine ⟨⟨e1.trans hext, ⟨e2.1, ?_⟩, e3.mono hext⟩, fun _ => hcons⟩
      intro p hp
      rcases List.mem_cons.mp hp with rfl | hp
      · exact e3.mono hext
      · exact (e2.2 p hp).mono hext
    cases n with
    | leaf d subs rows =>
      simp only at h2
      obtain ⟨ids1, s1, h3, h4⟩ := StateT_bind_ok _ _ _ _ _ h2
      exact finish ids1 s1 (hL _ s ids1 s1 hsh hG h3) h4
    | branch d subs ch =>
      simp only at h2
      obtain ⟨ids1, s1, h3, h4⟩ := StateT_bind_ok _ _ _ _ _ h2
      exact finish ids1 s1 (hB d subs ch s ids1 s1 hsh hG h3) h4

/-- all four statements, for every recursion budget -/
theorem harvest_all (E : Env α) (c : FCtx α) (hlt : 0 ≤ c.ap.supp.lt) :
    ∀ fuel, NodeStmt E c fuel ∧ RefineStmt E c fuel ∧ BranchStmt E c fuel ∧ LeafStmt E c fuel := by
  intro fuel
  induction fuel with
  | zero =>
    have hR : RefineStmt E c 0 := by
      intro n count s ids s' _ _ _ h
      simp [refineBuckets, throw, throwThe, MonadExceptOf.throw, StateT.lift, StateT.run, bind, Except.bind] at h
    refine ⟨?_, hR, ?_, leaf_of_refine E c hlt 0 hR⟩
    · intro n s ids s' _ _ h
      simp [harvestNode, throw, throwThe, MonadExceptOf.throw, StateT.lift, StateT.run, bind, Except.bind] at h
    · intro d subs ch s ids s' _ _ h
      simp [harvestBranch, throw, throwThe, MonadExceptOf.throw, StateT.lift, StateT.run, bind, Except.bind] at h
  | succ fuel ih =>
    obtain ⟨hN, hR, hB, hL⟩ := ih
    have hR' := refine_of_node E c hlt fuel hN
    exact ⟨node_of_leaf_branch E c fuel hL hB, hR', branch_of_node E c hlt fuel hN hR, leaf_of_refine E c hlt (fuel + 1) hR'⟩

end
