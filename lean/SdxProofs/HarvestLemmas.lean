import SdxProofs.MonadLemmas
import SdxProofs.BucketLemmas
import SdxProofs.TreeInv
import SdxProofs.ForestLemmas
import Mathlib.Data.List.InsertIdx
set_option linter.unusedSectionVars false
set_option linter.unusedVariables false
/-!
# The harvest: aliasing, frame and conservation

Cells are only ever appended; ranges and owner of a cell never change; the count of a cell is changed only by the
rescaling step of the branch that (transitively) contains the cell's owner, or of a lower-dimensional tree.
-/

section
variable {α : Type} [Field α] [LinearOrder α] [IsStrictOrderedRing α] [FloorRing α] [Inhabited α]

/-- `s'` extends `s`: cells only appended; ranges and owners of existing cells unchanged; counts unchanged for
cells owned by trees of at least `L` columns -/
def Ext (L : Nat) (s s' : HState α) : Prop :=
  s.cells.size ≤ s'.cells.size ∧
  ∀ id < s.cells.size, s'.cells[id]!.ivs = s.cells[id]!.ivs ∧ s'.cells[id]!.owner = s.cells[id]!.owner ∧
    (L ≤ (s.cells[id]!.owner.1).length → s'.cells[id]!.count = s.cells[id]!.count)

theorem Ext.refl (L : Nat) (s : HState α) : Ext L s s := ⟨le_refl _, fun _ _ => ⟨rfl, rfl, fun _ => rfl⟩⟩

theorem Ext.trans {L : Nat} {s1 s2 s3 : HState α} (h1 : Ext L s1 s2) (h2 : Ext L s2 s3) : Ext L s1 s3 := by
  refine ⟨le_trans h1.1 h2.1, fun id hid => ?_⟩
  obtain ⟨a1, a2, a3⟩ := h1.2 id hid
  obtain ⟨b1, b2, b3⟩ := h2.2 id (lt_of_lt_of_le hid h1.1)
  refine ⟨b1.trans a1, b2.trans a2, fun hl => ?_⟩
  rw [b3 (by rw [a2]; exact hl), a3 hl]

theorem Ext.mono {L L' : Nat} {s s' : HState α} (h : Ext L s s') (hl : L ≤ L') : Ext L' s s' :=
  ⟨h.1, fun id hid => ⟨(h.2 id hid).1, (h.2 id hid).2.1, fun hh => (h.2 id hid).2.2 (le_trans hl hh)⟩⟩

/-- the cell was created by the node with key `K` or by a node below it -/
def OwnerOK (K o : NodeKey) : Prop := o.1 = K.1 ∧ K.2 <+: o.2

/-- a node whose range may be released: a branch (it was split, so it passed the filter then and entities only
accumulate), or a leaf that passes the filter now -/
def Releasable (E : Env α) (c : FCtx α) (m : Node α) : Prop :=
  m.isLeaf = true → m.overThreshold E c c.ap.supp.lt = true

/-- one range of a cell is the released range of a releasable reachable node, for the same column -/
def RangeOK (E : Env α) (c : FCtx α) (root : Node α) (col : Nat) (iv : Ival α) : Prop :=
  ∃ m j, Reach root m ∧ Releasable E c m ∧ j < m.bucketIntervals.length ∧ j < m.data.comb.length ∧
    iv = m.bucketIntervals.getD j default ∧ m.data.comb.getD j 0 = col

/-- a cell: as many ranges as its owner has columns, each range accounted for -/
def CellOK (E : Env α) (c : FCtx α) (root : Node α) (ivs : List (Ival α)) (owner : NodeKey) : Prop :=
  ivs.length = owner.1.length ∧ ∀ pos < ivs.length, RangeOK E c root (owner.1.getD pos 0) (ivs.getD pos default)

/-- every position of a node's own released ranges is accounted for by the node itself -/
theorem CellOK.self (E : Env α) (c : FCtx α) (root n : Node α) (hr : Reach root n) (hrel : Releasable E c n)
    (hlen : n.bucketIntervals.length = n.data.comb.length) : CellOK E c root n.bucketIntervals (nodeKey n) := by
  refine ⟨hlen, fun pos hpos => ⟨n, pos, hr, hrel, hpos, by rw [← hlen]; exact hpos, rfl, rfl⟩⟩

/-- a list of cell ids a node with key `K` may return -/
def GoodIds (K : NodeKey) (s : HState α) (ids : List Nat) : Prop :=
  ids.Nodup ∧ ∀ id ∈ ids, id < s.cells.size ∧ OwnerOK K (s.cells[id]!.owner)

theorem GoodIds.mono {K : NodeKey} {L : Nat} {s s' : HState α} {ids : List Nat} (h : GoodIds K s ids) (he : Ext L s s') :
    GoodIds K s' ids :=
  ⟨h.1, fun id hid => ⟨lt_of_lt_of_le (h.2 id hid).1 he.1, by rw [(he.2 id (h.2 id hid).1).2.1]; exact (h.2 id hid).2⟩⟩

/-- the state invariant: counts are never negative; cached lists are good for their key -/
def GInv (E : Env α) (c : FCtx α) (root : Node α) (s : HState α) : Prop :=
  (∀ id < s.cells.size, 0 ≤ s.cells[id]!.count) ∧ (∀ p ∈ s.cache, GoodIds p.1 s p.2) ∧
  (∀ id < s.cells.size, CellOK E c root s.cells[id]!.ivs s.cells[id]!.owner)

theorem newCell_run (o : NodeKey) (ivs : List (Ival α)) (cnt : Int) (s : HState α) :
    (HM.newCell o ivs cnt).run s = .ok (s.cells.size, { s with cells := s.cells.push ⟨ivs, cnt, o⟩ }) := rfl

theorem liftEx_run {β : Type} (e : Except String β) (s s' : HState α) (v : β) (h : (liftEx (α := α) e).run s = .ok (v, s')) :
    e = .ok v ∧ s = s' := by
  cases e with
  | error m => simp [liftEx, throw, throwThe, MonadExceptOf.throw, StateT.lift, StateT.run, bind, Except.bind] at h
  | ok w =>
    simp [liftEx, pure, StateT.pure, StateT.run, Except.pure] at h
    exact ⟨by rw [h.1], h.2⟩

/-- pushing a cell -/
theorem push_ext (L : Nat) (s : HState α) (b : BCell α) : Ext L s { s with cells := s.cells.push b } := by
  refine ⟨by simp, fun id hid => ?_⟩
  have : (s.cells.push b)[id]! = s.cells[id]! := by
    simp [Array.getElem!_eq_getD, Array.getD, Array.getElem_push, hid, Nat.lt_succ_of_lt hid]
  simp [this]

theorem push_ginv (E : Env α) (c : FCtx α) (root : Node α) (s : HState α) (b : BCell α) (hb : 0 ≤ b.count)
    (hb' : CellOK E c root b.ivs b.owner) (h : GInv E c root s) : GInv E c root { s with cells := s.cells.push b } := by
  refine ⟨?_, ?_, ?_⟩
  · intro id hid
    simp only [Array.size_push] at hid
    by_cases h1 : id < s.cells.size
    · have : (s.cells.push b)[id]! = s.cells[id]! := by
        simp [Array.getElem!_eq_getD, Array.getD, Array.getElem_push, h1, Nat.lt_succ_of_lt h1]
      simp only [this]; exact h.1 id h1
    · have h2 : id = s.cells.size := by omega
      subst h2
      have : (s.cells.push b)[s.cells.size]! = b := by simp [Array.getElem!_eq_getD, Array.getD]
      simp only [this]; exact hb
  · intro p hp
    exact (h.2.1 p hp).mono (push_ext 0 s b)
  · intro id hid
    simp only [Array.size_push] at hid
    by_cases h1 : id < s.cells.size
    · have : (s.cells.push b)[id]! = s.cells[id]! := by
        simp [Array.getElem!_eq_getD, Array.getD, Array.getElem_push, h1, Nat.lt_succ_of_lt h1]
      simp only [this]; exact h.2.2 id h1
    · have h2 : id = s.cells.size := by omega
      subst h2
      have : (s.cells.push b)[s.cells.size]! = b := by simp [Array.getElem!_eq_getD, Array.getD]
      simp only [this]; exact hb'

/-- threading an invariant, a transitive state relation and a relation-monotone result property through `mapM` -/
theorem mapM_inv {β γ : Type} (f : β → HM α γ) (I : HState α → Prop) (Rel : HState α → HState α → Prop)
    (Q : β → γ → HState α → Prop) (hrefl : ∀ s, Rel s s) (htrans : ∀ s1 s2 s3, Rel s1 s2 → Rel s2 s3 → Rel s1 s3)
    (hmono : ∀ b y s s', Q b y s → Rel s s' → Q b y s') :
    ∀ (l : List β), (∀ b ∈ l, ∀ s y s', I s → (f b).run s = .ok (y, s') → I s' ∧ Rel s s' ∧ Q b y s') →
      ∀ s ys s', I s → (l.mapM f).run s = .ok (ys, s') →
        I s' ∧ Rel s s' ∧ List.Forall₂ (fun b y => Q b y s') l ys := by
  intro l
  induction l with
  | nil =>
    intro _ s ys s' hI h
    simp only [List.mapM_nil] at h
    obtain ⟨rfl, rfl⟩ := StateT_pure_ok _ _ _ _ h
    exact ⟨hI, hrefl _, List.Forall₂.nil⟩
  | cons a l ih =>
    intro hstep s ys s' hI h
    rw [List.mapM_cons] at h
    obtain ⟨y, s1, h1, h⟩ := StateT_bind_ok _ _ _ _ _ h
    obtain ⟨ys', s2, h2, h⟩ := StateT_bind_ok _ _ _ _ _ h
    obtain ⟨rfl, rfl⟩ := StateT_pure_ok _ _ _ _ h
    obtain ⟨hI1, hr1, hq1⟩ := hstep a (by simp) s y s1 hI h1
    obtain ⟨hI2, hr2, hq2⟩ := ih (fun b hb => hstep b (by simp [hb])) s1 ys' s2 hI1 h2
    exact ⟨hI2, htrans _ _ _ hr1 hr2, List.Forall₂.cons (hmono _ _ _ _ hq1 hr2) hq2⟩

/-- the released count of a node is at least `low_threshold` -/
theorem noisyCount_ge (E : Env α) (c : FCtx α) (n : Node α) (N : Int) (h : n.noisyCount E c = .ok N) : c.ap.supp.lt ≤ N := by
  unfold Node.noisyCount at h
  simp only at h
  split at h
  · cases h
  · simp only [Except.ok.injEq] at h
    rw [← h]; exact le_max_right _ _

theorem OwnerOK.refl (K : NodeKey) : OwnerOK K K := ⟨rfl, List.prefix_refl _⟩

theorem getElem!_push_size (cells : Array (BCell α)) (b : BCell α) : (cells.push b)[cells.size]! = b := by
  simp [Array.getElem!_eq_getD, Array.getD]

theorem getElem!_push_lt (cells : Array (BCell α)) (b : BCell α) (id : Nat) (h : id < cells.size) :
    (cells.push b)[id]! = cells[id]! := by
  simp [Array.getElem!_eq_getD, Array.getD, Array.getElem_push, h, Nat.lt_succ_of_lt h]

/-- a single fresh cell -/
theorem single_cell_spec (E : Env α) (c : FCtx α) (root : Node α) (L : Nat) (K : NodeKey) (s : HState α) (ivs : List (Ival α))
    (cnt : Int) (hc : 0 ≤ cnt) (hok : CellOK E c root ivs K) (h : GInv E c root s) :
    Ext L s { s with cells := s.cells.push ⟨ivs, cnt, K⟩ } ∧ GInv E c root { s with cells := s.cells.push ⟨ivs, cnt, K⟩ } ∧
    GoodIds K { s with cells := s.cells.push ⟨ivs, cnt, K⟩ } [s.cells.size] ∧
    sumCounts (s.cells.push ⟨ivs, cnt, K⟩) [s.cells.size] = cnt := by
  refine ⟨push_ext L s _, push_ginv E c root s _ hc hok h, ⟨by simp, ?_⟩, ?_⟩
  · intro id hid
    rw [List.mem_singleton.mp hid]
    simp only [Array.size_push, getElem!_push_size]
    exact ⟨by omega, OwnerOK.refl K⟩
  · simp [sumCounts, getElem!_push_size]


/-- what every harvesting step guarantees about the state and the ids it returns for node `n` -/
def Spec (E : Env α) (c : FCtx α) (root n : Node α) (s : HState α) (ids : List Nat) (s' : HState α) : Prop :=
  Ext (n.data.comb.length + 1) s s' ∧ GInv E c root s' ∧ GoodIds (nodeKey n) s' ids

/-- conservation: nothing released — and then the node fails the low-count filter on the rows it holds —, or the counts
add up to the node's released count or one less -/
def Cons (E : Env α) (c : FCtx α) (n : Node α) (ids : List Nat) (s' : HState α) : Prop :=
  (ids = [] ∧ n.overThreshold E c c.ap.supp.lt = false) ∨ Releasable E c n ∧ ∃ N, n.noisyCount E c = .ok N ∧ (sumCounts s'.cells ids = N ∨ sumCounts s'.cells ids = N - 1)

/-- what `_refine_buckets` guarantees: fresh cells only, adding up to exactly the requested count -/
def RefineSpec (E : Env α) (c : FCtx α) (root n : Node α) (count : Int) (s : HState α) (ids : List Nat) (s' : HState α) : Prop :=
  Ext n.data.comb.length s s' ∧ GInv E c root s' ∧ GoodIds (nodeKey n) s' ids ∧ (∀ id ∈ ids, s.cells.size ≤ id) ∧
    sumCounts s'.cells ids = count

def NodeStmt (E : Env α) (c : FCtx α) (root : Node α) (fuel : Nat) : Prop :=
  ∀ (n : Node α) (s : HState α) (ids : List Nat) (s' : HState α), Shape n → Reach root n → GInv E c root s →
    (harvestNode E c fuel n).run s = .ok (ids, s') →
    Spec E c root n s ids s' ∧ (s.cache.find? (fun p => p.1 == nodeKey n) = none → Cons E c n ids s')

def RefineStmt (E : Env α) (c : FCtx α) (root : Node α) (fuel : Nat) : Prop :=
  ∀ (n : Node α) (count : Int) (s : HState α) (ids : List Nat) (s' : HState α), Shape n → Reach root n →
    Releasable E c n → GInv E c root s → 0 ≤ count →
    (refineBuckets E c fuel n count).run s = .ok (ids, s') → RefineSpec E c root n count s ids s'

def LeafStmt (E : Env α) (c : FCtx α) (root : Node α) (fuel : Nat) : Prop :=
  ∀ (n : Node α) (s : HState α) (ids : List Nat) (s' : HState α), Shape n → Reach root n → GInv E c root s →
    (harvestLeaf E c fuel n).run s = .ok (ids, s') → Spec E c root n s ids s' ∧ Cons E c n ids s'

def BranchStmt (E : Env α) (c : FCtx α) (root : Node α) (fuel : Nat) : Prop :=
  ∀ (d : NodeData α) (subs : List (Option (Node α))) (ch : List (Nat × Node α)) (s : HState α) (ids : List Nat)
    (s' : HState α), Shape (.branch d subs ch) → Reach root (.branch d subs ch) → GInv E c root s →
    (harvestBranch E c fuel (.branch d subs ch) ch).run s = .ok (ids, s') →
    Spec E c root (.branch d subs ch) s ids s' ∧ Cons E c (.branch d subs ch) ids s'

theorem Spec.nil (E : Env α) (c : FCtx α) (root n : Node α) (s : HState α) (h : GInv E c root s) : Spec E c root n s [] s :=
  ⟨Ext.refl _ _, h, ⟨List.nodup_nil, fun _ h => by simp at h⟩⟩

theorem Shape.lens {n : Node α} (h : Shape n) :
    n.data.snapped.length = n.data.comb.length ∧ n.data.actual.length = n.data.comb.length ∧
    (2 ≤ n.data.comb.length → n.subnodes.length = n.data.comb.length) := by
  cases h with
  | leaf _ _ _ hS _ _ => exact hS
  | branch _ _ _ hS _ _ _ _ _ => exact hS

theorem bucketIntervals_length {n : Node α} (h : Shape n) : n.bucketIntervals.length = n.data.comb.length := by
  obtain ⟨h1, h2, _⟩ := h.lens
  simp [Node.bucketIntervals, h1, h2]

/-- `_harvest_leaf`, given `_refine_buckets` -/
theorem leaf_of_refine (E : Env α) (c : FCtx α) (hlt : 0 ≤ c.ap.supp.lt) (root : Node α) (fuel : Nat)
    (hR : RefineStmt E c root fuel) : LeafStmt E c root fuel := by
  intro n s ids s' hsh hreach hG h0
  unfold harvestLeaf at h0
  by_cases hover : n.overThreshold E c c.ap.supp.lt = true
  · rw [if_pos hover] at h0
    obtain ⟨N, s1, h1, h⟩ := StateT_bind_ok _ _ _ _ _ h0
    clear h0
    obtain ⟨hN, rfl⟩ := liftEx_run _ _ _ _ h1
    have hN0 : 0 ≤ N := le_trans hlt (noisyCount_ge E c n N hN)
    have hrel : Releasable E c n := fun _ => hover
    by_cases hs : (n.isSing || n.dims == 1) = true
    · rw [if_pos hs] at h
      obtain ⟨id, s2, h2, h3⟩ := StateT_bind_ok _ _ _ _ _ h
      clear h
      rw [newCell_run] at h2
      simp only [Except.ok.injEq, Prod.mk.injEq] at h2
      obtain ⟨rfl, rfl⟩ := h2
      obtain ⟨rfl, rfl⟩ := StateT_pure_ok _ _ _ _ h3
      obtain ⟨e1, e2, e3, e4⟩ := single_cell_spec E c root (n.data.comb.length + 1) (nodeKey n) s n.bucketIntervals N hN0
        (CellOK.self E c root n hreach hrel (bucketIntervals_length hsh)) hG
      exact ⟨⟨e1, e2, e3⟩, Or.inr ⟨hrel, N, hN, Or.inl e4⟩⟩
    · rw [if_neg hs] at h
      obtain ⟨e1, e2, e3, _, hsum⟩ := hR n N s ids s' hsh hreach hrel hG hN0 h
      exact ⟨⟨e1.mono (Nat.le_succ _), e2, e3⟩, Or.inr ⟨hrel, N, hN, Or.inl hsum⟩⟩
  · rw [if_neg hover] at h0
    obtain ⟨rfl, rfl⟩ := StateT_pure_ok _ _ _ _ h0
    exact ⟨Spec.nil E c root n s hG, Or.inl ⟨rfl, by simpa using hover⟩⟩

theorem randint_run (hi : Int) (s s' : HState α) (v : Nat) (h : (HM.randint (α := α) hi).run s = .ok (v, s')) :
    s'.cells = s.cells ∧ s'.cache = s.cache := by
  unfold HM.randint at h
  by_cases h1 : hi < 0
  · simp [h1, throw, throwThe, MonadExceptOf.throw, StateT.lift, StateT.run, bind, StateT.bind, Except.bind] at h
  · simp only [h1, if_false] at h
    cases hst : s.stream with
    | nil =>
      simp [hst, get, getThe, MonadStateOf.get, StateT.get, bind, StateT.bind, Except.bind, StateT.run, pure, Except.pure,
        throw, throwThe, MonadExceptOf.throw, StateT.lift] at h
    | cons x rest =>
      by_cases h2 : (x : Int) > hi
      · simp [hst, h2, get, getThe, MonadStateOf.get, StateT.get, bind, StateT.bind, Except.bind, StateT.run, pure, Except.pure,
          throw, throwThe, MonadExceptOf.throw, StateT.lift] at h
      · simp [hst, h2, get, getThe, MonadStateOf.get, StateT.get, bind, StateT.bind, Except.bind, StateT.run, pure, Except.pure,
          set, StateT.set, StateT.pure] at h
        obtain ⟨_, rfl⟩ := h
        exact ⟨rfl, rfl⟩

theorem cell_run (id : Nat) (s : HState α) : (HM.cell (α := α) id).run s = .ok (s.cells[id]!, s) := rfl

/-- reading cells does not change the state -/
theorem mapM_cell_state (ids : List Nat) (s s' : HState α) (r : List (BCell α))
    (h : (ids.mapM (HM.cell (α := α))).run s = .ok (r, s')) : s' = s := by
  have := mapM_inv (HM.cell (α := α)) (fun _ => True) (fun a b => b = a) (fun _ _ _ => True) (fun _ => rfl)
    (fun _ _ _ h1 h2 => h2.trans h1) (fun _ _ _ _ _ _ => trivial) ids
    (fun b _ s y s' _ hr => by rw [cell_run] at hr; simp only [Except.ok.injEq, Prod.mk.injEq] at hr; exact ⟨trivial, hr.2.symm, trivial⟩)
    s r s' trivial h
  exact this.2.1

theorem mapM_mapM_cell_state (idss : List (List Nat)) (s s' : HState α) (r : List (List (BCell α)))
    (h : (idss.mapM (fun (ids : List Nat) => ids.mapM (HM.cell (α := α)))).run s = .ok (r, s')) : s' = s := by
  have := mapM_inv (fun (ids : List Nat) => ids.mapM (HM.cell (α := α))) (fun _ => True) (fun a b => b = a) (fun _ _ _ => True) (fun _ => rfl)
    (fun _ _ _ h1 h2 => h2.trans h1) (fun _ _ _ _ _ _ => trivial) idss
    (fun b _ s y s' _ hr => ⟨trivial, mapM_cell_state b s s' y hr, trivial⟩)
    s r s' trivial h
  exact this.2.1


theorem lookupRun_mem {β : Type} : ∀ (l : List (β × Int)) (i : Nat) (x : β), lookupRun l i = some x → ∃ c, (x, c) ∈ l := by
  intro l
  induction l with
  | nil => intro i x h; simp [lookupRun] at h
  | cons p rest ih =>
    intro i x h
    obtain ⟨y, c⟩ := p
    unfold lookupRun at h
    split_ifs at h
    · simp only [Option.some.injEq] at h; subst h; exact ⟨c, by simp⟩
    · obtain ⟨c', hc'⟩ := ih _ x h
      exact ⟨c', by simp [hc']⟩

/-- a run of allocations: every step appends exactly one cell of count 1 owned by `K` and returns its id -/
theorem mapM_alloc {β : Type} (f : β → HM α Nat) (K : NodeKey) (P : List (Ival α) → Prop)
    (hstep : ∀ b s id s', (f b).run s = .ok (id, s') → id = s.cells.size ∧ s'.cache = s.cache ∧
      ∃ ivs, P ivs ∧ s'.cells = s.cells.push ⟨ivs, 1, K⟩) :
    ∀ (l : List β) (s : HState α) (ids : List Nat) (s' : HState α), (l.mapM f).run s = .ok (ids, s') →
      ids = List.range' s.cells.size l.length ∧ s'.cells.size = s.cells.size + l.length ∧ s'.cache = s.cache ∧
      (∀ id < s.cells.size, s'.cells[id]! = s.cells[id]!) ∧
      (∀ id, s.cells.size ≤ id → id < s'.cells.size → s'.cells[id]!.count = 1 ∧ s'.cells[id]!.owner = K ∧
        P s'.cells[id]!.ivs) := by
  intro l
  induction l with
  | nil =>
    intro s ids s' h
    simp only [List.mapM_nil] at h
    obtain ⟨rfl, rfl⟩ := StateT_pure_ok _ _ _ _ h
    exact ⟨rfl, rfl, rfl, fun _ _ => rfl, fun id h1 h2 => by omega⟩
  | cons a l ih =>
    intro s ids s' h
    rw [List.mapM_cons] at h
    obtain ⟨y, s1, h1, h2⟩ := StateT_bind_ok _ _ _ _ _ h
    obtain ⟨ys, s2, h3, h4⟩ := StateT_bind_ok _ _ _ _ _ h2
    obtain ⟨rfl, rfl⟩ := StateT_pure_ok _ _ _ _ h4
    obtain ⟨rfl, hc1, ivs, hP, hcells⟩ := hstep a s y s1 h1
    obtain ⟨rfl, hsz, hc2, hold, hnew⟩ := ih s1 ys s2 h3
    have hs1 : s1.cells.size = s.cells.size + 1 := by rw [hcells]; simp
    refine ⟨?_, by rw [hsz, hs1]; simp; omega, hc2.trans hc1, ?_, ?_⟩
    · rw [hs1]; simp [List.range'_succ]
    · intro id hid
      rw [hold id (by rw [hs1]; omega), hcells, getElem!_push_lt _ _ _ hid]
    · intro id h1' h2'
      by_cases he : id = s.cells.size
      · subst he
        rw [hold _ (by rw [hs1]; omega), hcells, getElem!_push_size]
        exact ⟨rfl, rfl, hP⟩
      · exact hnew id (by rw [hs1]; omega) h2'

theorem sum_map_const_one (l : List Nat) (g : Nat → Int) (h : ∀ x ∈ l, g x = 1) : (l.map g).sum = l.length := by
  induction l with
  | nil => rfl
  | cons a l ih =>
    simp only [List.map_cons, List.sum_cons, List.length_cons]
    rw [h a (by simp), ih (fun x hx => h x (by simp [hx]))]
    push_cast; ring

/-- `_match_subintervals`: `count` fresh cells of count 1 owned by the refined node -/
theorem matchSub_spec (E : Env α) (c : FCtx α) (root : Node α) (L : Nat) (K : NodeKey) (count : Int) (hc : 0 ≤ count)
    (perDim : List (List (Ival α × Int))) (perSub : List (List (List (Ival α) × Int)))
    (hcell : ∀ (mc : Nat) (sivs : List (Ival α)) (div : Ival α),
      (∃ cnt, (sivs, cnt) ∈ perSub.getD (mc % perDim.length) []) →
      (∃ cnt, (div, cnt) ∈ perDim.getD (perDim.length - mc % perDim.length - 1) []) →
      CellOK E c root (sivs.take (perDim.length - mc % perDim.length - 1) ++ [div] ++
        sivs.drop (perDim.length - mc % perDim.length - 1)) K)
    (s : HState α) (ids : List Nat) (s' : HState α) (hG : GInv E c root s)
    (h : (matchSubintervals K count perDim perSub).run s = .ok (ids, s')) :
    Ext L s s' ∧ GInv E c root s' ∧ GoodIds K s' ids ∧ (∀ id ∈ ids, s.cells.size ≤ id) ∧ sumCounts s'.cells ids = count := by
  unfold matchSubintervals at h
  obtain ⟨hids, hsz, hcache, hold, hnew⟩ := mapM_alloc _ K (fun ivs => CellOK E c root ivs K) (by
    intro b s id s' hr
    obtain ⟨a, s1, h1, hr⟩ := StateT_bind_ok _ _ _ _ _ hr
    obtain ⟨b', s2, h2, hr⟩ := StateT_bind_ok _ _ _ _ _ hr
    obtain ⟨c1, c2⟩ := randint_run _ _ _ _ h1
    obtain ⟨c3, c4⟩ := randint_run _ _ _ _ h2
    split at hr
    · rename_i sivs div hl1 hl2
      rw [newCell_run] at hr
      simp only [Except.ok.injEq, Prod.mk.injEq] at hr
      obtain ⟨rfl, rfl⟩ := hr
      exact ⟨by rw [c3, c1], by simp [c4, c2], _, hcell b sivs div (lookupRun_mem _ _ _ hl1) (lookupRun_mem _ _ _ hl2),
        by rw [c3, c1]⟩
    · simp [throw, throwThe, MonadExceptOf.throw, StateT.lift, StateT.run, bind, Except.bind] at hr) _ s ids s' h
  simp only [List.length_range] at hids hsz
  have hext : Ext L s s' := by
    refine ⟨by omega, fun id hid => ?_⟩
    rw [hold id hid]; exact ⟨rfl, rfl, fun _ => rfl⟩
  have hmem : ∀ id ∈ ids, s.cells.size ≤ id ∧ id < s'.cells.size := by
    intro id hid
    rw [hids, List.mem_range'_1] at hid
    omega
  refine ⟨hext, ⟨?_, ?_, ?_⟩, ⟨?_, ?_⟩, fun id hid => (hmem id hid).1, ?_⟩
  · intro id hid
    by_cases h1 : id < s.cells.size
    · rw [hold id h1]; exact hG.1 id h1
    · rw [(hnew id (by omega) hid).1]; norm_num
  · intro p hp
    rw [hcache] at hp
    exact (hG.2.1 p hp).mono hext
  · intro id hid
    by_cases h1 : id < s.cells.size
    · rw [hold id h1]; exact hG.2.2 id h1
    · obtain ⟨_, ho, hP⟩ := hnew id (by omega) hid
      rw [ho]; exact hP
  · rw [hids]; exact List.nodup_range'
  · intro id hid
    obtain ⟨h1, h2⟩ := hmem id hid
    exact ⟨h2, by rw [(hnew id h1 h2).2.1]; exact OwnerOK.refl K⟩
  · unfold sumCounts
    rw [sum_map_const_one ids _ (fun id hid => (hnew id (hmem id hid).1 (hmem id hid).2).1), hids]
    simp only [List.length_range']
    omega

theorem mapM_cell_val (ids : List Nat) (s s' : HState α) (r : List (BCell α))
    (h : (ids.mapM (HM.cell (α := α))).run s = .ok (r, s')) : r = ids.map (fun id => s.cells[id]!) := by
  induction ids generalizing r s' with
  | nil =>
    simp only [List.mapM_nil] at h
    obtain ⟨rfl, rfl⟩ := StateT_pure_ok _ _ _ _ h
    rfl
  | cons a l ih =>
    rw [List.mapM_cons] at h
    obtain ⟨y, s1, h1, h2⟩ := StateT_bind_ok _ _ _ _ _ h
    obtain ⟨ys, s2, h3, h4⟩ := StateT_bind_ok _ _ _ _ _ h2
    obtain ⟨rfl, rfl⟩ := StateT_pure_ok _ _ _ _ h4
    rw [cell_run] at h1
    simp only [Except.ok.injEq, Prod.mk.injEq] at h1
    obtain ⟨rfl, rfl⟩ := h1
    rw [ih _ _ h3]
    rfl

theorem mapM_mapM_cell_val (idss : List (List Nat)) (s s' : HState α) (r : List (List (BCell α)))
    (h : (idss.mapM (fun (ids : List Nat) => ids.mapM (HM.cell (α := α)))).run s = .ok (r, s')) :
    r = idss.map (fun ids => ids.map (fun id => s.cells[id]!)) := by
  induction idss generalizing r s' with
  | nil =>
    simp only [List.mapM_nil] at h
    obtain ⟨rfl, rfl⟩ := StateT_pure_ok _ _ _ _ h
    rfl
  | cons a l ih =>
    rw [List.mapM_cons] at h
    obtain ⟨y, s1, h1, h2⟩ := StateT_bind_ok _ _ _ _ _ h
    obtain ⟨ys, s2, h3, h4⟩ := StateT_bind_ok _ _ _ _ _ h2
    obtain ⟨rfl, rfl⟩ := StateT_pure_ok _ _ _ _ h4
    have e1 := mapM_cell_val a s s1 y h1
    have e2 := mapM_cell_state a s s1 y h1
    subst e2
    rw [ih _ _ h3, e1]
    rfl

/-- entries of `_get_per_subnode_intervals_lists` are the range lists of buckets of that sub-node, of full width -/
theorem perSub_mem (smallest : List (Ival α)) (subb : List (List (BCell α))) (si : Nat) (sivs : List (Ival α)) (cnt : Int)
    (h : (sivs, cnt) ∈ (perSubnodeRuns smallest subb).getD si []) :
    si < subb.length ∧ ∃ b ∈ subb.getD si [], b.ivs = sivs ∧ b.ivs.length = subb.length - 1 := by
  unfold perSubnodeRuns at h
  simp only at h
  rw [List.getD_eq_getElem?_getD, List.getElem?_map] at h
  cases hz : (List.zip (genCombinations (subb.length - 1) subb.length) subb)[si]? with
  | none => rw [hz] at h; simp at h
  | some pr =>
    rw [hz] at h
    obtain ⟨comb, bs⟩ := pr
    simp only [Option.map_some, Option.getD_some, List.mem_filterMap] at h
    obtain ⟨b, hb, hcond⟩ := h
    rw [List.getElem?_zip_eq_some] at hz
    obtain ⟨_, hz2⟩ := hz
    have hsi : si < subb.length := (List.getElem?_eq_some_iff.mp hz2).1
    refine ⟨hsi, b, ?_, ?_⟩
    · rw [List.getD_eq_getElem?_getD, hz2]; exact hb
    · split_ifs at hcond with hc
      simp only [Option.some.injEq, Prod.mk.injEq] at hcond
      simp only [Bool.and_eq_true, beq_iff_eq] at hc
      exact ⟨hcond.1, hc.2⟩

/-- entries of `_get_per_dimension_interval_lists` for dimension `d` are ranges, at the position of `d`, of buckets of a
sub-node whose combination contains `d` -/
theorem perDim_mem (smallest : List (Ival α)) (subb : List (List (BCell α))) (d : Nat) (div : Ival α) (cnt : Int)
    (h : (div, cnt) ∈ (perDimensionRuns smallest subb).getD d []) :
    ∃ (i : Nat) (comb : List Nat) (bs : List (BCell α)) (pos : Nat) (b : BCell α),
      (genCombinations (subb.length - 1) subb.length)[i]? = some comb ∧ subb[i]? = some bs ∧
      comb.idxOf? d = some pos ∧ b ∈ bs ∧ div = b.ivs.getD pos default := by
  unfold perDimensionRuns at h
  simp only at h
  rw [List.getD_eq_getElem?_getD, List.getElem?_map] at h
  by_cases hd : d < subb.length
  · rw [List.getElem?_range hd] at h
    simp only [Option.map_some, Option.getD_some, List.mem_flatten, List.mem_map] at h
    obtain ⟨l, ⟨pr, hpr, rfl⟩, hmem⟩ := h
    obtain ⟨comb, bs⟩ := pr
    obtain ⟨i, hi, hget⟩ := List.mem_iff_getElem.mp hpr
    have hz : (List.zip (genCombinations (subb.length - 1) subb.length) subb)[i]? = some (comb, bs) := by
      rw [List.getElem?_eq_getElem hi, hget]
    rw [List.getElem?_zip_eq_some] at hz
    simp only at hmem
    cases hidx : comb.idxOf? d with
    | none => rw [hidx] at hmem; simp at hmem
    | some pos =>
      rw [hidx] at hmem
      simp only [List.mem_filterMap] at hmem
      obtain ⟨b, hb, hcond⟩ := hmem
      split_ifs at hcond
      simp only [Option.some.injEq, Prod.mk.injEq] at hcond
      exact ⟨i, comb, bs, pos, b, hz.1, hz.2, hidx, hb, hcond.1.symm⟩
  · rw [List.getElem?_eq_none (by simp; omega)] at h
    simp at h

theorem combos_mem_subset : ∀ (l : List Nat) (k : Nat) (cb : List Nat), cb ∈ combos k l → ∀ x ∈ cb, x ∈ l := by
  intro l
  induction l with
  | nil =>
    intro k cb h x hx
    cases k with
    | zero => simp [combos] at h; subst h; simp at hx
    | succ k => simp [combos] at h
  | cons a l ih =>
    intro k cb h x hx
    cases k with
    | zero => simp [combos] at h; subst h; simp at hx
    | succ k =>
      simp only [combos, List.mem_append, List.mem_map] at h
      rcases h with ⟨cb', hcb', rfl⟩ | h
      · rcases List.mem_cons.mp hx with rfl | hx
        · simp
        · exact List.mem_cons_of_mem _ (ih k cb' hcb' x hx)
      · exact List.mem_cons_of_mem _ (ih (k + 1) cb h x hx)

theorem genCombinations_mem_lt (k n : Nat) (cb : List Nat) (h : cb ∈ genCombinations k n) : ∀ x ∈ cb, x < n := by
  unfold genCombinations at h
  split_ifs at h
  · simp at h
  · intro x hx
    exact List.mem_range.mp (combos_mem_subset _ _ cb h x hx)

theorem getD_eraseIdx {β : Type} (l : List β) (k pos : Nat) (dflt : β) :
    (l.eraseIdx k).getD pos dflt = if pos < k then l.getD pos dflt else l.getD (pos + 1) dflt := by
  simp only [List.getD_eq_getElem?_getD, List.getElem?_eraseIdx]
  split_ifs <;> rfl

theorem getD_insert_mid {β : Type} (l : List β) (x : β) (di pos : Nat) (dflt : β) (hdi : di ≤ l.length) :
    (l.take di ++ [x] ++ l.drop di).getD pos dflt =
      if pos < di then l.getD pos dflt else if pos = di then x else l.getD (pos - 1) dflt := by
  simp only [List.getD_eq_getElem?_getD]
  have ht : (l.take di).length = di := by simp [hdi]
  split_ifs with h1 h2
  · rw [List.append_assoc, List.getElem?_append_left (by rw [ht]; exact h1), List.getElem?_take_of_lt h1]
  · subst h2
    rw [List.append_assoc, List.getElem?_append_right (by rw [ht]), ht]
    simp
  · rw [List.getElem?_append_right (by simp [ht]; omega)]
    simp only [List.length_append, ht, List.length_singleton, List.getElem?_drop]
    congr 2; omega

/-- sub-nodes of a well-shaped node are well-shaped and have fewer columns -/
theorem Shape.subnode {n s : Node α} (h : Shape n) (hm : some s ∈ n.subnodes) :
    Shape s ∧ s.data.comb.length + 1 ≤ n.data.comb.length := by
  obtain ⟨k, hk, hks⟩ := List.mem_iff_getElem.mp hm
  have hk' : n.subnodes[k]? = some (some s) := by rw [List.getElem?_eq_getElem hk, hks]
  cases h with
  | leaf d subs rows _ hC hS =>
    obtain ⟨hkl, hc, _⟩ := hC k s hk'
    exact ⟨hS k s hk', by show s.data.comb.length + 1 ≤ d.comb.length; rw [hc, List.length_eraseIdx]; split_ifs <;> omega⟩
  | branch d subs ch _ hC hS _ _ _ =>
    obtain ⟨hkl, hc, _⟩ := hC k s hk'
    exact ⟨hS k s hk', by show s.data.comb.length + 1 ≤ d.comb.length; rw [hc, List.length_eraseIdx]; split_ifs <;> omega⟩

/-- the single-cell fallback of `_refine_buckets` -/
theorem fallback_spec (E : Env α) (c : FCtx α) (root n : Node α) (count : Int) (hc : 0 ≤ count)
    (hok : CellOK E c root n.bucketIntervals (nodeKey n)) (s : HState α) (ids : List Nat) (s' : HState α) (hG : GInv E c root s)
    (h : (do let id ← HM.newCell (α := α) (nodeKey n) n.bucketIntervals count; pure [id] : HM α (List Nat)).run s = .ok (ids, s')) :
    Ext n.data.comb.length s s' ∧ GInv E c root s' ∧ GoodIds (nodeKey n) s' ids ∧ (∀ id ∈ ids, s.cells.size ≤ id) ∧
      sumCounts s'.cells ids = count := by
  obtain ⟨id, s2, h2, h3⟩ := StateT_bind_ok _ _ _ _ _ h
  rw [newCell_run] at h2
  simp only [Except.ok.injEq, Prod.mk.injEq] at h2
  obtain ⟨rfl, rfl⟩ := h2
  obtain ⟨rfl, rfl⟩ := StateT_pure_ok _ _ _ _ h3
  obtain ⟨e1, e2, e3, e4⟩ := single_cell_spec E c root n.data.comb.length (nodeKey n) s n.bucketIntervals count hc hok hG
  exact ⟨e1, e2, e3, fun id hid => by rw [List.mem_singleton.mp hid], e4⟩

theorem bucketIntervals_getD {n : Node α} (h : Shape n) (j : Nat) (hj : j < n.data.comb.length) :
    n.bucketIntervals.getD j default =
      if (n.data.actual.getD j default).isSing then n.data.actual.getD j default else n.data.snapped.getD j default := by
  obtain ⟨h1, h2, _⟩ := h.lens
  have hjs : j < n.data.snapped.length := by rw [h1]; exact hj
  have hja : j < n.data.actual.length := by rw [h2]; exact hj
  simp [Node.bucketIntervals, List.getD_eq_getElem?_getD, List.getElem?_zipWith, hjs, hja]

theorem genCombinations_small (d : Nat) (hd : d < 2) : genCombinations (d - 1) d = [] := by
  unfold genCombinations
  have : d - 1 = 0 := by omega
  simp [this]

/-- the columns of the `k`-th sub-combination of a node are the node's columns without column `dims-1-k` -/
theorem subcols_eq (comb : List Nat) (k : Nat) (h2 : 2 ≤ comb.length) (hk : k < comb.length) (cb : List Nat)
    (hcb : (genCombinations (comb.length - 1) comb.length)[k]? = some cb) :
    cb.map (fun i => comb.getD i 0) = comb.eraseIdx (comb.length - 1 - k) := by
  rw [genCombinations_pred comb.length h2] at hcb
  rw [List.getElem?_map, List.getElem?_range hk] at hcb
  simp only [Option.map_some, Option.some.injEq] at hcb
  rw [← hcb, ← List.eraseIdx_map]
  congr 1
  apply List.ext_getElem
  · simp
  · intro i h1 _
    simp only [List.length_map, List.length_range] at h1
    simp [List.getD_eq_getElem?_getD, h1]

/-- a bucket assembled by `_match_subintervals` from a sub-node bucket and a per-dimension range is accounted for,
column by column -/
theorem matchCell_ok (E : Env α) (c : FCtx α) (root n : Node α) (hsh : Shape n) (s1 : HState α) (hG1 : GInv E c root s1)
    (subIds : List (List Nat))
    (hF : List.Forall₂ (fun (pr : Option (Node α) × List Nat) (y : List Nat) =>
      ∀ id ∈ y, id < s1.cells.size ∧ (s1.cells[id]!).owner.1 = pr.2.map (fun i => n.data.comb.getD i 0))
      (List.zip n.subnodes (genCombinations (n.dims - 1) n.dims)) subIds)
    (subb : List (List (BCell α))) (hsubb : subb = subIds.map (fun ids => ids.map (fun id => s1.cells[id]!)))
    (sm : List (Ival α)) (mc : Nat) (sivs : List (Ival α)) (div : Ival α)
    (hs : ∃ cnt, (sivs, cnt) ∈ (perSubnodeRuns sm subb).getD (mc % (perDimensionRuns sm subb).length) [])
    (hd : ∃ cnt, (div, cnt) ∈ (perDimensionRuns sm subb).getD
      ((perDimensionRuns sm subb).length - mc % (perDimensionRuns sm subb).length - 1) []) :
    CellOK E c root (sivs.take ((perDimensionRuns sm subb).length - mc % (perDimensionRuns sm subb).length - 1) ++ [div] ++
      sivs.drop ((perDimensionRuns sm subb).length - mc % (perDimensionRuns sm subb).length - 1)) (nodeKey n) := by
  obtain ⟨c1, hs⟩ := hs
  obtain ⟨c2, hd⟩ := hd
  have hD : (perDimensionRuns sm subb).length = subb.length := by simp [perDimensionRuns]
  rw [hD] at hs hd ⊢
  obtain ⟨hlS, hlA, hlSub⟩ := hsh.lens
  have hdims : n.dims = n.data.comb.length := rfl
  obtain ⟨hsi, b, hb, hbiv, hblen⟩ := perSub_mem sm subb _ sivs c1 hs
  have hlen1 : subb.length = subIds.length := by rw [hsubb]; simp
  have hlen2 := hF.length_eq
  have h2 : 2 ≤ n.data.comb.length := by
    by_contra hlt2
    rw [hdims, genCombinations_small _ (by omega)] at hlen2
    simp at hlen2
    omega
  have hcl : (genCombinations (n.data.comb.length - 1) n.data.comb.length).length = n.data.comb.length := by
    rw [genCombinations_pred _ h2]; simp
  have hDn : subb.length = n.data.comb.length := by
    rw [hlen1, ← hlen2, List.length_zip, hlSub h2, hdims, hcl]; simp
  rw [hDn] at hs hd hsi hblen hb ⊢
  set D := n.data.comb.length with hDdef
  set si := mc % D with hsidef
  have hsilt : si < D := hsi
  -- facts about any bucket of sub-list `i`
  have cellFacts : ∀ (i : Nat) (bs : List (BCell α)) (b : BCell α), subb[i]? = some bs → b ∈ bs →
      CellOK E c root b.ivs b.owner ∧ i < D ∧ b.owner.1 = n.data.comb.eraseIdx (D - 1 - i) ∧
      ∃ cb, (genCombinations (D - 1) D)[i]? = some cb ∧ b.owner.1 = cb.map (fun j => n.data.comb.getD j 0) := by
    intro i bs b hbs hbm
    have hi : i < subb.length := (List.getElem?_eq_some_iff.mp hbs).1
    have hiD : i < D := by rw [← hDn]; exact hi
    rw [hsubb, List.getElem?_map] at hbs
    have hiI : i < subIds.length := by rw [← hlen1]; exact hi
    rw [List.getElem?_eq_getElem hiI] at hbs
    simp only [Option.map_some, Option.some.injEq] at hbs
    rw [← hbs] at hbm
    obtain ⟨id, hid, rfl⟩ := List.mem_map.mp hbm
    have hiZ : i < (List.zip n.subnodes (genCombinations (n.dims - 1) n.dims)).length := by rw [hlen2]; exact hiI
    have hq := List.forall₂_iff_get.mp hF |>.2 i hiZ hiI
    simp only [List.get_eq_getElem] at hq
    obtain ⟨hv, ho⟩ := hq id hid
    have hz : (List.zip n.subnodes (genCombinations (n.dims - 1) n.dims))[i]? =
        some ((List.zip n.subnodes (genCombinations (n.dims - 1) n.dims))[i]) := List.getElem?_eq_getElem hiZ
    rw [List.getElem?_zip_eq_some] at hz
    have hcb : (genCombinations (D - 1) D)[i]? = some ((List.zip n.subnodes (genCombinations (n.dims - 1) n.dims))[i]).2 := hz.2
    refine ⟨hG1.2.2 id hv, hiD, ?_, _, hcb, ho⟩
    rw [ho]
    exact subcols_eq n.data.comb i h2 hiD _ hcb
  -- the sub-node bucket
  have hbsi : subb[si]? = some (subb.getD si []) := by
    rw [List.getD_eq_getElem?_getD, List.getElem?_eq_getElem (by rw [hDn]; exact hsilt)]; simp
  obtain ⟨hbok, _, hbown, _⟩ := cellFacts si _ b hbsi hb
  -- the per-dimension range
  obtain ⟨i, cbi, bs, pos, b', hcbi, hbsI, hidx, hb'm, hdiv⟩ := perDim_mem sm subb _ div c2 hd
  rw [hDn] at hcbi
  obtain ⟨hb'ok, hiD, _, cb', hcb', hb'own⟩ := cellFacts i bs b' hbsI hb'm
  have hcbeq : cb' = cbi := by rw [hcbi] at hcb'; exact (Option.some.inj hcb').symm
  subst hcbeq
  obtain ⟨hposl, hposv, _⟩ := List.idxOf?_eq_some_iff.mp hidx
  set di := D - si - 1 with hdidef
  have hdile : di ≤ sivs.length := by rw [← hbiv, hblen]; omega
  have hsl : sivs.length = D - 1 := by rw [← hbiv, hblen]
  have hdivok : RangeOK E c root (n.data.comb.getD di 0) div := by
    have hpl : pos < b'.ivs.length := by rw [hb'ok.1, hb'own]; simpa using hposl
    have := hb'ok.2 pos hpl
    rw [hb'own] at this
    rw [hdiv]
    have e : (cb'.map (fun j => n.data.comb.getD j 0)).getD pos 0 = n.data.comb.getD di 0 := by
      simp [List.getD_eq_getElem?_getD, hposl, hposv]
    rw [e] at this
    exact this
  refine ⟨?_, ?_⟩
  · simp only [List.length_append, List.length_take, List.length_drop, List.length_singleton, nodeKey]
    omega
  · intro p hp
    simp only [List.length_append, List.length_take, List.length_drop, List.length_singleton] at hp
    rw [getD_insert_mid sivs div di p default hdile]
    simp only [nodeKey]
    split_ifs with hp1 hp2
    · have := hbok.2 p (by rw [hbiv, hsl]; omega)
      rw [hbown, getD_eraseIdx, hbiv] at this
      have hsd : D - 1 - si = di := by omega
      rw [hsd, if_pos hp1] at this
      exact this
    · rw [hp2]; exact hdivok
    · have := hbok.2 (p - 1) (by rw [hbiv, hsl]; omega)
      rw [hbown, getD_eraseIdx, hbiv] at this
      have hsd : D - 1 - si = di := by omega
      rw [hsd, if_neg (by omega)] at this
      have e : p - 1 + 1 = p := by omega
      rw [e] at this
      exact this

/-- `_refine_buckets`, given `_harvest_node` one level down -/
theorem refine_of_node (E : Env α) (c : FCtx α) (hlt : 0 ≤ c.ap.supp.lt) (root : Node α) (fuel : Nat)
    (hN : NodeStmt E c root fuel) : RefineStmt E c root (fuel + 1) := by
  intro n count s ids s' hsh hreach hrel hG hc h
  rw [refineBuckets] at h
  obtain ⟨subIds, s1, h1, h2⟩ := StateT_bind_ok _ _ _ _ _ h
  clear h
  obtain ⟨hlS, hlA, hlSub⟩ := hsh.lens
  have hdims : n.dims = n.data.comb.length := rfl
  -- collecting the sub-buckets: allocations and harvests of lower-dimensional nodes
  obtain ⟨hG1, hE1, hF⟩ := mapM_inv _ (GInv E c root) (Ext n.data.comb.length)
    (fun (pr : Option (Node α) × List Nat) (y : List Nat) (st : HState α) =>
      ∀ id ∈ y, id < st.cells.size ∧ (st.cells[id]!).owner.1 = pr.2.map (fun i => n.data.comb.getD i 0))
    (Ext.refl _) (fun _ _ _ => Ext.trans)
    (fun _ _ _ _ hq hr id hid => ⟨lt_of_lt_of_le (hq id hid).1 hr.1, by rw [(hr.2 id (hq id hid).1).2.1]; exact (hq id hid).2⟩)
    _ (by
      intro b hb s0 y s0' hG0 hr
      obtain ⟨sub, comb⟩ := b
      have hcomb : comb ∈ genCombinations (n.dims - 1) n.dims := (List.of_mem_zip hb).2
      simp only at hr
      split_ifs at hr with hsing
      · obtain ⟨cnt, s2, h3, hr⟩ := StateT_bind_ok _ _ _ _ _ hr
        obtain ⟨hN', rfl⟩ := liftEx_run _ _ _ _ h3
        obtain ⟨id, s3, h4, hr⟩ := StateT_bind_ok _ _ _ _ _ hr
        rw [newCell_run] at h4
        simp only [Except.ok.injEq, Prod.mk.injEq] at h4
        obtain ⟨rfl, rfl⟩ := h4
        obtain ⟨rfl, rfl⟩ := StateT_pure_ok _ _ _ _ hr
        have hc0 : 0 ≤ cnt := le_trans hlt (noisyCount_ge E c n cnt hN')
        have hok : CellOK E c root (comb.map (fun i => n.data.actual.getD i default))
            (comb.map (fun i => n.data.comb.getD i 0), n.data.path) := by
          refine ⟨by simp, fun pos hpos => ?_⟩
          simp only [List.length_map] at hpos
          have hj : comb.getD pos 0 < n.data.comb.length := by
            have : comb.getD pos 0 ∈ comb := by
              rw [List.getD_eq_getElem?_getD, List.getElem?_eq_getElem hpos]; simp
            exact genCombinations_mem_lt _ _ comb hcomb _ this
          have hs1 : (n.data.actual.getD (comb.getD pos 0) default).isSing = true := by
            rw [List.all_eq_true] at hsing
            apply hsing
            rw [List.mem_map]
            exact ⟨comb.getD pos 0, by rw [List.getD_eq_getElem?_getD, List.getElem?_eq_getElem hpos]; simp, rfl⟩
          refine ⟨n, comb.getD pos 0, hreach, hrel, by rw [bucketIntervals_length hsh]; exact hj, hj, ?_, ?_⟩
          · rw [bucketIntervals_getD hsh _ hj, if_pos hs1]
            simp [List.getD_eq_getElem?_getD, hpos]
          · simp [List.getD_eq_getElem?_getD, hpos]
        refine ⟨push_ginv E c root _ _ hc0 hok hG0, push_ext _ _ _, ?_⟩
        intro id hid
        rw [List.mem_singleton.mp hid]
        simp [getElem!_push_size]
      · cases sub with
        | none =>
          obtain ⟨rfl, rfl⟩ := StateT_pure_ok _ _ _ _ hr
          exact ⟨hG0, Ext.refl _ _, fun id hid => by simp at hid⟩
        | some sn =>
          have hm : some sn ∈ n.subnodes := (List.of_mem_zip hb).1
          obtain ⟨hsh', hlen⟩ := hsh.subnode hm
          obtain ⟨⟨e1, e2, e3⟩, _⟩ := hN sn s0 y s0' hsh' (Reach.sub n sn hreach hm) hG0 hr
          refine ⟨e2, e1.mono hlen, ?_⟩
          -- the owner columns of the sub-node's cells are the columns of this combination
          obtain ⟨k, hk, hkget⟩ := List.mem_iff_getElem.mp hb
          have hz : (List.zip n.subnodes (genCombinations (n.dims - 1) n.dims))[k]? = some (some sn, comb) := by
            rw [List.getElem?_eq_getElem hk, hkget]
          rw [List.getElem?_zip_eq_some] at hz
          have h2' : 2 ≤ n.data.comb.length := by
            by_contra hlt2
            rw [hdims, genCombinations_small _ (by omega)] at hcomb
            simp at hcomb
          have hsc : SubsC n.data.comb n.data.snapped n.subnodes := by
            cases hsh with
            | leaf _ _ _ _ hC _ => exact hC
            | branch _ _ _ _ hC _ _ _ _ => exact hC
          obtain ⟨hkl, hcs, _⟩ := hsc k sn hz.1
          have := subcols_eq n.data.comb k h2' hkl comb (by rw [← hdims]; exact hz.2)
          intro id hid
          exact ⟨(e3.2 id hid).1, by rw [(e3.2 id hid).2.1]; simp only [nodeKey]; rw [hcs, this]⟩) s subIds s1 hG h1
  have hokn : CellOK E c root n.bucketIntervals (nodeKey n) := CellOK.self E c root n hreach hrel (bucketIntervals_length hsh)
  have finish : ∀ (ids : List Nat) (s' : HState α),
      (Ext n.data.comb.length s1 s' ∧ GInv E c root s' ∧ GoodIds (nodeKey n) s' ids ∧ (∀ id ∈ ids, s1.cells.size ≤ id) ∧
        sumCounts s'.cells ids = count) → RefineSpec E c root n count s ids s' := by
    intro ids s' ⟨e1, e2, e3, e4, e5⟩
    exact ⟨hE1.trans e1, e2, e3, fun id hid => le_trans hE1.1 (e4 id hid), e5⟩
  by_cases ha : subIds.any List.isEmpty = true
  · simp only [ha, if_true] at h2
    exact finish _ _ (fallback_spec E c root n count hc hokn s1 ids s' hG1 h2)
  · simp only [ha, Bool.false_eq_true, if_false] at h2
    obtain ⟨subb, s2, h3, h5⟩ := StateT_bind_ok _ _ _ _ _ h2
    clear h2
    have hsubb := mapM_mapM_cell_val _ _ _ _ h3
    have := mapM_mapM_cell_state _ _ _ _ h3
    subst this
    obtain ⟨sm0, s3, h4, h6⟩ := StateT_bind_ok _ _ _ _ _ h5
    clear h5
    obtain ⟨_, rfl⟩ := liftEx_run _ _ _ _ h4
    split_ifs at h6 with hb
    · exact finish _ _ (fallback_spec E c root n count hc hokn _ ids s' hG1 h6)
    · refine finish _ _ (matchSub_spec E c root _ _ count hc _ _ ?_ _ ids s' hG1 h6)
      intro mc sivs div hs hd
      exact matchCell_ok E c root n hsh _ hG1 subIds hF subb hsubb _ mc sivs div hs hd

theorem getElem!_modify (cells : Array (BCell α)) (i j : Nat) (f : BCell α → BCell α) (hj : j < cells.size) :
    (cells.modify i f)[j]! = if i = j then f cells[j]! else cells[j]! := by
  have h1 : (cells.modify i f)[j]! = ((cells.modify i f)[j]?).getD default := by simp [Array.getElem!_eq_getD, Array.getD]; split <;> simp_all
  have h2 : cells[j]! = (cells[j]?).getD default := by simp [Array.getElem!_eq_getD, Array.getD]; split <;> simp_all
  rw [h1, Array.getElem?_modify, h2]
  have : cells[j]? = some cells[j] := Array.getElem?_eq_getElem hj
  split_ifs <;> simp [this]

/-- the in-place count updates of `_adjust_counts` -/
theorem setCounts_spec : ∀ (pairs : List (Nat × Int)) (cells : Array (BCell α)), (pairs.map (·.1)).Nodup →
    (∀ p ∈ pairs, p.1 < cells.size) →
    (HM.setCounts cells pairs).size = cells.size ∧
    (∀ id < cells.size, id ∉ pairs.map (·.1) → (HM.setCounts cells pairs)[id]! = cells[id]!) ∧
    (∀ p ∈ pairs, (HM.setCounts cells pairs)[p.1]! = { cells[p.1]! with count := p.2 }) := by
  intro pairs
  induction pairs with
  | nil => intro cells _ _; simp [HM.setCounts]
  | cons q rest ih =>
    intro cells hnd hv
    rw [List.map_cons, List.nodup_cons] at hnd
    have hsz : (cells.modify q.1 (fun b => { b with count := q.2 })).size = cells.size := Array.size_modify
    obtain ⟨i1, i2, i3⟩ := ih (cells.modify q.1 (fun b => { b with count := q.2 })) hnd.2
      (fun p hp => by rw [hsz]; exact hv p (by simp [hp]))
    have e : HM.setCounts cells (q :: rest) = HM.setCounts (cells.modify q.1 (fun b => { b with count := q.2 })) rest := by
      simp [HM.setCounts]
    rw [e]
    refine ⟨i1.trans hsz, ?_, ?_⟩
    · intro id hid hnot
      simp only [List.map_cons, List.mem_cons, not_or] at hnot
      rw [i2 id (by rw [hsz]; exact hid) hnot.2, getElem!_modify _ _ _ _ hid, if_neg (Ne.symm hnot.1)]
    · intro p hp
      rcases List.mem_cons.mp hp with rfl | hp
      · have hq := hv p (by simp)
        rw [i2 p.1 (by rw [hsz]; exact hq) hnd.1, getElem!_modify _ _ _ _ hq, if_pos rfl]
      · have hpv := hv p (by simp [hp])
        have hne : q.1 ≠ p.1 := by
          intro he
          exact hnd.1 (by rw [he]; exact List.mem_map.mpr ⟨p, hp, rfl⟩)
        rw [i3 p hp, getElem!_modify _ _ _ _ hpv, if_neg hne]


theorem forall₂_mem_right {β γ : Type} {R : β → γ → Prop} {l : List β} {r : List γ} (h : List.Forall₂ R l r) :
    ∀ y ∈ r, ∃ x ∈ l, R x y := by
  induction h with
  | nil => simp
  | cons hab _ ih =>
    intro y hy
    rcases List.mem_cons.mp hy with rfl | hy
    · exact ⟨_, by simp, hab⟩
    · obtain ⟨x, hx, hr⟩ := ih y hy
      exact ⟨x, by simp [hx], hr⟩

theorem forall₂_pairwise {β γ : Type} {R : β → γ → Prop} {P : β → β → Prop} {Q : γ → γ → Prop} {l : List β} {r : List γ}
    (h : List.Forall₂ R l r) (hp : l.Pairwise P) (hq : ∀ a b x y, R a x → R b y → P a b → Q x y) : r.Pairwise Q := by
  induction h with
  | nil => exact List.Pairwise.nil
  | cons hab hrest ih =>
    rw [List.pairwise_cons] at hp ⊢
    refine ⟨?_, ih hp.2⟩
    intro y hy
    obtain ⟨x, hx, hr⟩ := forall₂_mem_right hrest y hy
    exact hq _ _ _ _ hab hr (hp.1 x hx)

theorem sumCounts_append (cells : Array (BCell α)) (a b : List Nat) : sumCounts cells (a ++ b) = sumCounts cells a + sumCounts cells b := by
  simp [sumCounts]

theorem sumCounts_congr (c1 c2 : Array (BCell α)) (ids : List Nat) (h : ∀ id ∈ ids, c2[id]!.count = c1[id]!.count) :
    sumCounts c2 ids = sumCounts c1 ids := by
  unfold sumCounts
  congr 1
  exact List.map_congr_left h

theorem sumCounts_nonneg (cells : Array (BCell α)) (ids : List Nat) (h : ∀ id ∈ ids, 0 ≤ cells[id]!.count) : 0 ≤ sumCounts cells ids := by
  unfold sumCounts
  apply List.sum_nonneg
  intro x hx
  obtain ⟨id, hid, rfl⟩ := List.mem_map.mp hx
  exact h id hid

/-- the concatenated bucket lists of the children of a branch are a good list for the branch -/
theorem flatten_good (d : NodeData α) (subs : List (Option (Node α))) (ch : List (Nat × Node α)) (s : HState α)
    (idss : List (List Nat)) (hsh : Shape (.branch d subs ch))
    (h : List.Forall₂ (fun p y => GoodIds (nodeKey p.2) s y) ch idss) :
    GoodIds (nodeKey (.branch d subs ch)) s idss.flatten := by
  cases hsh with
  | branch _ _ _ _ _ _ hkeys hchild _ =>
  have hkey : ∀ p ∈ ch, nodeKey p.2 = (d.comb, d.path ++ [p.1]) := by
    intro p hp
    obtain ⟨h1, h2, _⟩ := hchild p hp
    simp [nodeKey, h1, h2]
  constructor
  · rw [List.nodup_flatten]
    constructor
    · intro y hy
      obtain ⟨p, _, hg⟩ := forall₂_mem_right h y hy
      exact hg.1
    · have hpk : ch.Pairwise (fun a b => a.1 ≠ b.1 ∧ a ∈ ch ∧ b ∈ ch) := by
        have h1 : ch.Pairwise (fun a b => a.1 ≠ b.1) := (List.pairwise_map.mp hkeys)
        have h2 : ch.Pairwise (fun a b => a ∈ ch ∧ b ∈ ch) := List.pairwise_of_forall_mem_list (fun a ha b hb => ⟨ha, hb⟩) |>.imp id
        exact h1.and h2 |>.imp (fun ⟨x, y⟩ => ⟨x, y.1, y.2⟩)
      refine forall₂_pairwise h hpk ?_
      intro a b x y ha hb ⟨hne, hma, hmb⟩ id hx hy
      have oa := (ha.2 id hx).2
      have ob := (hb.2 id hy).2
      rw [hkey a hma] at oa
      rw [hkey b hmb] at ob
      have hpa := oa.2
      have hpb := ob.2
      simp only at hpa hpb
      have := List.prefix_of_prefix_length_le hpa hpb (by simp)
      have e := List.IsPrefix.eq_of_length this (by simp)
      have := List.append_cancel_left e
      simp only [List.cons.injEq, and_true] at this
      exact hne this
  · intro id hid
    obtain ⟨y, hy, hidy⟩ := List.mem_flatten.mp hid
    obtain ⟨p, hp, hg⟩ := forall₂_mem_right h y hy
    obtain ⟨hv, ho⟩ := hg.2 id hidy
    rw [hkey p hp] at ho
    refine ⟨hv, ho.1, ?_⟩
    exact List.IsPrefix.trans (List.prefix_append _ _) ho.2


theorem get_run (s : HState α) : (get : HM α (HState α)).run s = .ok (s, s) := rfl

theorem modify_run (f : HState α → HState α) (s : HState α) : (modify f : HM α Unit).run s = .ok ((), f s) := rfl

/-- `_harvest_branch`, given `_harvest_node` and `_refine_buckets` one level down -/
theorem branch_of_node (E : Env α) (c : FCtx α) (hlt : 0 ≤ c.ap.supp.lt) (root : Node α) (fuel : Nat)
    (hN : NodeStmt E c root fuel) (hR : RefineStmt E c root fuel) : BranchStmt E c root (fuel + 1) := by
  intro d subs ch s ids s' hsh hreach hG h
  have hrel : Releasable E c (.branch d subs ch) := fun hl => by simp [Node.isLeaf] at hl
  have hokn : CellOK E c root (Node.branch d subs ch).bucketIntervals (nodeKey (.branch d subs ch)) :=
    CellOK.self E c root _ hreach hrel (bucketIntervals_length hsh)
  rw [harvestBranch] at h
  obtain ⟨idss, s1, h1, h2⟩ := StateT_bind_ok _ _ _ _ _ h
  clear h
  have hchild : ∀ p ∈ ch, Shape p.2 ∧ p.2.data.comb.length = d.comb.length := by
    cases hsh with
    | branch _ _ _ _ _ _ _ hc hs => exact fun p hp => ⟨hs p hp, by rw [(hc p hp).1]⟩
  -- the children
  obtain ⟨hG1, hE1, hF⟩ := mapM_inv _ (GInv E c root) (Ext (d.comb.length + 1)) (fun (p : Nat × Node α) (y : List Nat) (s : HState α) => GoodIds (nodeKey p.2) s y) (Ext.refl _)
    (fun _ _ _ => Ext.trans) (fun _ _ _ _ hq hr => GoodIds.mono (L := d.comb.length + 1) hq hr) ch (by
      intro p hp s0 y s0' hG0 hr
      obtain ⟨⟨e1, e2, e3⟩, _⟩ := hN p.2 s0 y s0' (hchild p hp).1 (Reach.child d subs ch p hreach hp) hG0 hr
      rw [(hchild p hp).2] at e1
      exact ⟨e2, e1, e3⟩) s idss s1 hG h1
  have hgood := flatten_good d subs ch s1 idss hsh hF
  obtain ⟨ids0, hids0⟩ : ∃ ids0, ids0 = idss.flatten := ⟨_, rfl⟩
  rw [← hids0] at hgood h2
  obtain ⟨sg, s1', h3, h4⟩ := StateT_bind_ok _ _ _ _ _ h2
  clear h2
  rw [get_run] at h3
  simp only [Except.ok.injEq, Prod.mk.injEq] at h3
  obtain ⟨rfl, rfl⟩ := h3
  obtain ⟨N, s2, h5, h6⟩ := StateT_bind_ok _ _ _ _ _ h4
  clear h4
  obtain ⟨hNc, rfl⟩ := liftEx_run _ _ _ _ h5
  have hN0 : 0 ≤ N := le_trans hlt (noisyCount_ge E c _ N hNc)
  have hcc0 : 0 ≤ sumCounts s1.cells ids0 :=
    sumCounts_nonneg _ _ (fun id hid => hG1.1 id (hgood.2 id hid).1)
  have hL : (Node.branch d subs ch).data.comb.length = d.comb.length := rfl
  by_cases hlow : 2 * sumCounts s1.cells ids0 < N
  · rw [if_pos hlow] at h6
    by_cases h1d : ((Node.branch d subs ch).dims == 1) = true
    · rw [if_pos h1d] at h6
      obtain ⟨id, s3, h7, h8⟩ := StateT_bind_ok _ _ _ _ _ h6
      rw [newCell_run] at h7
      simp only [Except.ok.injEq, Prod.mk.injEq] at h7
      obtain ⟨rfl, rfl⟩ := h7
      obtain ⟨rfl, rfl⟩ := StateT_pure_ok _ _ _ _ h8
      obtain ⟨e1, e2, e3, e4⟩ := single_cell_spec E c root (d.comb.length + 1) (nodeKey (.branch d subs ch)) s1
        (Node.branch d subs ch).bucketIntervals N hN0 hokn hG1
      exact ⟨⟨hE1.trans e1, e2, e3⟩, Or.inr ⟨hrel, N, hNc, Or.inl e4⟩⟩
    · rw [if_neg h1d] at h6
      obtain ⟨rids, s3, h7, h8⟩ := StateT_bind_ok _ _ _ _ _ h6
      obtain ⟨rfl, rfl⟩ := StateT_pure_ok _ _ _ _ h8
      obtain ⟨e1, e2, e3, e4, e5⟩ := hR (.branch d subs ch) (N - sumCounts s1.cells ids0) s1 rids s3 hsh hreach hrel hG1
        (by omega) h7
      have hgood3 := hgood.mono e1
      refine ⟨⟨hE1.trans (e1.mono (Nat.le_succ _)), e2, ⟨?_, ?_⟩⟩, Or.inr ⟨hrel, N, hNc, Or.inl ?_⟩⟩
      · rw [List.nodup_append]
        refine ⟨hgood.1, e3.1, ?_⟩
        intro a ha b hb hab
        have := (hgood.2 a ha).1
        have := e4 b hb
        omega
      · intro id hid
        rcases List.mem_append.mp hid with hid | hid
        · exact hgood3.2 id hid
        · exact e3.2 id hid
      · rw [sumCounts_append, e5]
        have : sumCounts s3.cells ids0 = sumCounts s1.cells ids0 := by
          apply sumCounts_congr
          intro id hid
          obtain ⟨hv, ho⟩ := hgood.2 id hid
          refine (e1.2 id hv).2.2 ?_
          rw [ho.1]; exact le_refl _
        rw [this]; ring
  · rw [if_neg hlow] at h6
    by_cases hz : (sumCounts s1.cells ids0 == 0) = true
    · rw [if_pos hz] at h6
      simp [throw, throwThe, MonadExceptOf.throw, StateT.lift, StateT.run, bind, Except.bind, StateT.bind] at h6
    · rw [if_neg hz] at h6
      have hccpos : 0 < sumCounts s1.cells ids0 := by
        have : sumCounts s1.cells ids0 ≠ 0 := by simpa using hz
        omega
      obtain ⟨u, s3, h7, h8⟩ := StateT_bind_ok _ _ _ _ _ h6
      rw [modify_run] at h7
      simp only [Except.ok.injEq, Prod.mk.injEq] at h7
      obtain ⟨_, rfl⟩ := h7
      obtain ⟨rfl, rfl⟩ := StateT_pure_ok _ _ _ _ h8
      -- the rescaled counts
      obtain ⟨a1, a2, a3⟩ := C10_adjust_sum_core (α := α) (ids0.map (fun id => s1.cells[id]!.count))
        (sumCounts s1.cells ids0) N
        (by intro x hx; obtain ⟨id, hid, rfl⟩ := List.mem_map.mp hx; exact hG1.1 id (hgood.2 id hid).1) rfl hccpos hN0
      set cs' := adjustCountsPure (α := α) (ids0.map (fun id => s1.cells[id]!.count)) (sumCounts s1.cells ids0) N
        with hcs'
      have hlen : cs'.length = ids0.length := by rw [a2]; simp
      have hzipfst : (List.zip ids0 cs').map (·.1) = ids0 := by
        rw [List.map_fst_zip]; omega
      obtain ⟨b1, b2, b3⟩ := setCounts_spec (List.zip ids0 cs') s1.cells (by rw [hzipfst]; exact hgood.1)
        (fun p hp => (hgood.2 p.1 (by rw [← hzipfst]; exact List.mem_map.mpr ⟨p, hp, rfl⟩)).1)
      have hext : Ext (d.comb.length + 1) s1 { s1 with cells := HM.setCounts s1.cells (List.zip ids0 cs') } := by
        refine ⟨by simp [b1], fun id hid => ?_⟩
        by_cases hin : id ∈ ids0
        · obtain ⟨p, hp, hpid⟩ : ∃ p ∈ List.zip ids0 cs', p.1 = id := by
            rw [← hzipfst] at hin
            obtain ⟨p, hp, h⟩ := List.mem_map.mp hin
            exact ⟨p, hp, h⟩
          subst hpid
          simp only
          rw [b3 p hp]
          refine ⟨rfl, rfl, fun hl => ?_⟩
          have := (hgood.2 p.1 hin).2.1
          rw [this] at hl
          simp only [nodeKey, Node.data] at hl
          omega
        · simp only
          rw [b2 id hid (by rw [hzipfst]; exact hin)]
          exact ⟨rfl, rfl, fun _ => rfl⟩
      have hsum : sumCounts (HM.setCounts s1.cells (List.zip ids0 cs')) ids0 = cs'.sum := by
        unfold sumCounts
        congr 1
        apply List.ext_getElem
        · simp [hlen]
        · intro i hi1 hi2
          have hi : i < ids0.length := by simpa using hi1
          have hic : i < cs'.length := by rw [hlen]; exact hi
          have hm : (ids0[i], cs'[i]) ∈ List.zip ids0 cs' := by
            rw [List.mem_iff_getElem]
            exact ⟨i, by simp [hlen, hi], by simp⟩
          have := b3 _ hm
          simp only at this
          rw [List.getElem_map, this]
      refine ⟨⟨hE1.trans hext, ⟨?_, ?_, ?_⟩, hgood.mono hext⟩, Or.inr ⟨hrel, N, hNc, ?_⟩⟩
      · intro id hid
        simp only [b1] at hid
        by_cases hin : id ∈ ids0
        · obtain ⟨p, hp, hpid⟩ : ∃ p ∈ List.zip ids0 cs', p.1 = id := by
            rw [← hzipfst] at hin
            obtain ⟨p, hp, h⟩ := List.mem_map.mp hin
            exact ⟨p, hp, h⟩
          subst hpid
          simp only
          rw [b3 p hp]
          exact a1 p.2 (List.of_mem_zip hp).2
        · simp only
          rw [b2 id hid (by rw [hzipfst]; exact hin)]
          exact hG1.1 id hid
      · intro p hp
        exact (hG1.2.1 p hp).mono hext
      · intro id hid
        simp only [b1] at hid
        have := hext.2 id hid
        simp only at this
        rw [this.1, this.2.1]
        exact hG1.2.2 id hid
      · simp only
        rw [hsum]
        exact a3


/-- `_harvest_node` (cache look-up, then leaf or branch), given the two one level down -/
theorem node_of_leaf_branch (E : Env α) (c : FCtx α) (root : Node α) (fuel : Nat) (hL : LeafStmt E c root fuel)
    (hB : BranchStmt E c root fuel) : NodeStmt E c root (fuel + 1) := by
  intro n s ids s' hsh hreach hG h
  rw [harvestNode] at h
  obtain ⟨sg, s0, h1, h2⟩ := StateT_bind_ok _ _ _ _ _ h
  clear h
  rw [get_run] at h1
  simp only [Except.ok.injEq, Prod.mk.injEq] at h1
  obtain ⟨rfl, rfl⟩ := h1
  cases hf : s.cache.find? (fun p => p.1 == nodeKey n) with
  | some hit =>
    rw [hf] at h2
    obtain ⟨rfl, rfl⟩ := StateT_pure_ok _ _ _ _ h2
    have hm := List.mem_of_find?_eq_some hf
    have hk : hit.1 = nodeKey n := by simpa using List.find?_some hf
    have := hG.2.1 hit hm
    rw [hk] at this
    exact ⟨⟨Ext.refl _ _, hG, this⟩, fun hnone => by simp at hnone⟩
  | none =>
    rw [hf] at h2
    have finish : ∀ (ids1 : List Nat) (s1 : HState α), Spec E c root n s ids1 s1 ∧ Cons E c n ids1 s1 →
        (do modify (fun (s : HState α) => { s with cache := (nodeKey n, ids1) :: s.cache }); pure ids1 : HM α (List Nat)).run s1
          = .ok (ids, s') → Spec E c root n s ids s' ∧ (none = (none : Option (NodeKey × List Nat)) → Cons E c n ids s') := by
      intro ids1 s1 ⟨⟨e1, e2, e3⟩, hcons⟩ hr
      obtain ⟨u, s2, h5, h6⟩ := StateT_bind_ok _ _ _ _ _ hr
      rw [modify_run] at h5
      simp only [Except.ok.injEq, Prod.mk.injEq] at h5
      obtain ⟨_, rfl⟩ := h5
      obtain ⟨rfl, rfl⟩ := StateT_pure_ok _ _ _ _ h6
      have hext : Ext (n.data.comb.length + 1) s1 { s1 with cache := (nodeKey n, ids1) :: s1.cache } :=
        ⟨le_refl _, fun _ _ => ⟨rfl, rfl, fun _ => rfl⟩⟩
      refine ⟨⟨e1.trans hext, ⟨e2.1, ?_, e2.2.2⟩, e3.mono hext⟩, fun _ => hcons⟩
      intro p hp
      rcases List.mem_cons.mp hp with rfl | hp
      · exact e3.mono hext
      · exact (e2.2.1 p hp).mono hext
    cases n with
    | leaf d subs rows =>
      simp only at h2
      obtain ⟨ids1, s1, h3, h4⟩ := StateT_bind_ok _ _ _ _ _ h2
      exact finish ids1 s1 (hL _ s ids1 s1 hsh hreach hG h3) h4
    | branch d subs ch =>
      simp only at h2
      obtain ⟨ids1, s1, h3, h4⟩ := StateT_bind_ok _ _ _ _ _ h2
      exact finish ids1 s1 (hB d subs ch s ids1 s1 hsh hreach hG h3) h4

/-- all four statements, for every recursion budget -/
theorem harvest_all (E : Env α) (c : FCtx α) (hlt : 0 ≤ c.ap.supp.lt) (root : Node α) :
    ∀ fuel, NodeStmt E c root fuel ∧ RefineStmt E c root fuel ∧ BranchStmt E c root fuel ∧ LeafStmt E c root fuel := by
  intro fuel
  induction fuel with
  | zero =>
    have hR : RefineStmt E c root 0 := by
      intro n count s ids s' _ _ _ _ _ h
      simp [refineBuckets, throw, throwThe, MonadExceptOf.throw, StateT.lift, StateT.run, bind, Except.bind] at h
    refine ⟨?_, hR, ?_, leaf_of_refine E c hlt root 0 hR⟩
    · intro n s ids s' _ _ _ h
      simp [harvestNode, throw, throwThe, MonadExceptOf.throw, StateT.lift, StateT.run, bind, Except.bind] at h
    · intro d subs ch s ids s' _ _ _ h
      simp [harvestBranch, throw, throwThe, MonadExceptOf.throw, StateT.lift, StateT.run, bind, Except.bind] at h
  | succ fuel ih =>
    obtain ⟨hN, hR, hB, hL⟩ := ih
    have hR' := refine_of_node E c hlt root fuel hN
    exact ⟨node_of_leaf_branch E c root fuel hL hB, hR', branch_of_node E c hlt root fuel hN hR,
      leaf_of_refine E c hlt root (fuel + 1) hR'⟩

end
