import SdxProofs.Field
import SdxModel.Bucket
import Mathlib.Algebra.BigOperators.Group.List.Basic
import Mathlib.Algebra.Order.BigOperators.Group.List
import Mathlib.Tactic.FieldSimp
set_option linter.unusedSectionVars false
/-! The carry loop of `_adjust_counts` over an ordered field with floor. -/

section
variable {α : Type} [Field α] [LinearOrder α] [IsStrictOrderedRing α] [FloorRing α]

theorem trunc_of_nonneg {x : α} (h : 0 ≤ x) : (ScalarOps.trunc x : Int) = ⌊x⌋ := by
  rw [strunc_eq]; simp [h]

/-- the loop invariant: the emitted counts plus the carried error equal the exact scaled total -/
theorem adjustLoop_spec (ratio : α) (hr : 0 ≤ ratio) (cs : List Int) (hcs : ∀ c ∈ cs, 0 ≤ c) (acc : α)
    (h0 : 0 ≤ acc) (h1 : acc ≤ 1) :
    (∀ x ∈ adjustLoop ratio cs acc, 0 ≤ x) ∧ (adjustLoop ratio cs acc).length = cs.length ∧
    ∃ accf : α, 0 ≤ accf ∧ accf ≤ 1 ∧
      (((adjustLoop ratio cs acc).sum : Int) : α) + accf = ratio * ((cs.sum : Int) : α) + acc := by
  induction cs generalizing acc with
  | nil => exact ⟨by simp [adjustLoop], by simp [adjustLoop], acc, h0, h1, by simp [adjustLoop]⟩
  | cons c cs ih =>
    have hc : (0 : α) ≤ ((c : Int) : α) := by exact_mod_cast hcs c (by simp)
    have hadj : (0 : α) ≤ (c : α) * ratio := mul_nonneg hc hr
    have hfl := Int.floor_le ((c : α) * ratio)
    have hfl2 := Int.lt_floor_add_one ((c : α) * ratio)
    have hfn : (0 : Int) ≤ ⌊(c : α) * ratio⌋ := Int.floor_nonneg.mpr hadj
    have hcs' : ∀ c ∈ cs, 0 ≤ c := fun x hx => hcs x (by simp [hx])
    simp only [adjustLoop, ofInt_eq, sfloor_eq, Int.cast_one]
    split_ifs with hgt
    · -- carry
      obtain ⟨p1, p2, accf, a0, a1, hs⟩ := ih hcs' (acc + ((c : α) * ratio - ((⌊(c : α) * ratio⌋ : Int) : α)) - 1) (by linarith) (by linarith)
      have ht : (ScalarOps.trunc ((c : α) * ratio + 1) : Int) = ⌊(c : α) * ratio⌋ + 1 := by
        rw [trunc_of_nonneg (by linarith)]; exact Int.floor_add_one _
      refine ⟨?_, by simp only [List.length_cons, p2], accf, a0, a1, ?_⟩
      · intro x hx
        rcases List.mem_cons.mp hx with rfl | hx
        · rw [ht]; omega
        · exact p1 x hx
      · simp only [List.sum_cons, ht]
        push_cast
        push_cast at hs
        linarith
    · obtain ⟨p1, p2, accf, a0, a1, hs⟩ := ih hcs' (acc + ((c : α) * ratio - ((⌊(c : α) * ratio⌋ : Int) : α))) (by linarith) (by linarith [not_lt.mp hgt])
      have ht : (ScalarOps.trunc ((c : α) * ratio) : Int) = ⌊(c : α) * ratio⌋ := trunc_of_nonneg hadj
      refine ⟨?_, by simp only [List.length_cons, p2], accf, a0, a1, ?_⟩
      · intro x hx
        rcases List.mem_cons.mp hx with rfl | hx
        · rw [ht]; exact hfn
        · exact p1 x hx
      · simp only [List.sum_cons, ht]
        push_cast
        push_cast at hs
        linarith

/-- Rescaling non-negative counts with positive sum `current` to an integer target `≥ 0` yields
non-negative counts, as many as before, summing to the target or one less. -/
theorem C10_adjust_sum_core (cs : List Int) (current target : Int) (hcs : ∀ c ∈ cs, 0 ≤ c) (hsum : cs.sum = current)
    (hpos : 0 < current) (ht : 0 ≤ target) :
    (∀ x ∈ adjustCountsPure (α := α) cs current target, 0 ≤ x) ∧
    (adjustCountsPure (α := α) cs current target).length = cs.length ∧
    ((adjustCountsPure (α := α) cs current target).sum = target ∨
     (adjustCountsPure (α := α) cs current target).sum = target - 1) := by
  have hcur : (0 : α) < (current : α) := by exact_mod_cast hpos
  have hr : (0 : α) ≤ (target : α) / (current : α) := div_nonneg (by exact_mod_cast ht) (le_of_lt hcur)
  obtain ⟨p1, p2, accf, a0, a1, hs⟩ := adjustLoop_spec ((target : α) / (current : α)) hr cs hcs 0 (le_refl _) (by norm_num)
  unfold adjustCountsPure
  simp only [ofInt_eq, Int.cast_zero] at *
  refine ⟨p1, p2, ?_⟩
  rw [hsum] at hs
  have hval : (((adjustLoop ((target : α) / (current : α)) cs 0).sum : Int) : α) = (target : α) - accf := by
    have : (target : α) / (current : α) * (current : α) = (target : α) := by field_simp
    linarith
  -- an integer within [target - 1, target]
  have h1 : ((adjustLoop ((target : α) / (current : α)) cs 0).sum : Int) ≤ target := by
    have : (((adjustLoop ((target : α) / (current : α)) cs 0).sum : Int) : α) ≤ (target : α) := by linarith
    exact_mod_cast this
  have h2 : target - 1 ≤ ((adjustLoop ((target : α) / (current : α)) cs 0).sum : Int) := by
    have : ((target - 1 : Int) : α) ≤ (((adjustLoop ((target : α) / (current : α)) cs 0).sum : Int) : α) := by
      push_cast; linarith
    exact_mod_cast this
  omega


end
