import SdxProofs.Field
import SdxModel.Bucket
import Mathlib.Algebra.BigOperators.Group.List.Basic
import Mathlib.Algebra.Order.BigOperators.Group.List
import Mathlib.Tactic.FieldSimp
set_option linter.unusedSectionVars false
/-! The carry loop of `_adjust_counts` over an ordered field with floor. -/

section
variable {α : Type} [Field α] [LinearOrder α] [IsStrictOrderedRing α] [FloorRing α]

theorem trunc_of_nonneg {x : α} (h : 0 ≤ x) : (ScalarOps.trunc x : Int) = ⌊x⌋ := by
  rw [strunc_eq]; simp [h]

/-- the loop invariant: the emitted counts plus the carried error equal the exact scaled total -/
theorem adjustLoop_spec (ratio : α) (hr : 0 ≤ ratio) (cs : List Int) (hcs : ∀ c ∈ cs, 0 ≤ c) (acc : α)
    (h0 : 0 ≤ acc) (h1 : acc ≤ 1) :
    (∀ x ∈ adjustLoop ratio cs acc, 0 ≤ x) ∧ (adjustLoop ratio cs acc).length = cs.length ∧
    ∃ accf : α, 0 ≤ accf ∧ accf ≤ 1 ∧
      (((adjustLoop ratio cs acc).sum : Int) : α) + accf = ratio * ((cs.sum : Int) : α) + acc := by
  induction cs generalizing acc with
  | nil => exact ⟨by simp [adjustLoop], by simp [adjustLoop], acc, h0, h1, by simp [adjustLoop]⟩
  | cons c cs ih =>
    have hc : (0 : α) ≤ ((c : Int) : α) := by exact_mod_cast hcs c (by simp)
    have hadj : (0 : α) ≤ (c : α) * ratio := mul_nonneg hc hr
    have hfl := Int.floor_le ((c : α) * ratio)
    have hfl2 := Int.lt_floor_add_one ((c : α) * ratio)
    have hfn : (0 : Int) ≤ ⌊(c : α) * ratio⌋ := Int.floor_nonneg.mpr hadj
    have hcs' : ∀ c ∈ cs, 0 ≤ c := fun x hx => hcs x (by simp [hx])
    simp only [adjustLoop, ofInt_eq, sfloor_eq, Int.cast_one]
    split_ifs with hgt
    · -- carry
      obtain ⟨p1, p2, accf, a0, a1, hs⟩ := ih hcs' (acc + ((c : α) * ratio - ((⌊(c : α) * ratio⌋ : Int) : α)) - 1) (by linarith) (by linarith)
      have ht : (ScalarOps.trunc ((c : α) * ratio + 1) : Int) = ⌊(c : α) * ratio⌋ + 1 := by
        rw [trunc_of_nonneg (by linarith)]; exact Int.floor_add_one _
      refine ⟨?_, by simp only [List.length_cons, p2], accf, a0, a1, ?_⟩
      · intro x hx
        rcases List.mem_cons.mp hx with rfl | hx
        · rw [ht]; omega
        · exact p1 x hx
      · simp only [List.sum_cons, ht]
        push_cast
        push_cast at hs
        linarith
    · obtain ⟨p1, p2, accf, a0, a1, hs⟩ := ih hcs' (acc + ((c : α) * ratio - ((⌊(c : α) * ratio⌋ : Int) : α))) (by linarith) (by linarith [not_lt.mp hgt])
      have ht : (ScalarOps.trunc ((c : α) * ratio) : Int) = ⌊(c : α) * ratio⌋ := trunc_of_nonneg hadj
      refine ⟨?_, by simp only [List.length_cons, p2], accf, a0, a1, ?_⟩
      · intro x hx
        rcases List.mem_cons.mp hx with rfl | hx
        · rw [ht]; exact hfn
        · exact p1 x hx
      · simp only [List.sum_cons, ht]
        push_cast
        push_cast at hs
        linarith

end
