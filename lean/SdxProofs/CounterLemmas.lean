import SdxProofs.AnonLemmas
import Mathlib.Data.Finset.Card
import Mathlib.Data.Finset.Sort
import Mathlib.Data.List.Perm.Basic
set_option linter.unusedSectionVars false
/-! Set semantics of the entity counters (`counters.py`). -/

/-- the set of distinct non-null ids of one id column -/
def entitySet (col : List UInt64) : Finset UInt64 := (col.filter (· ≠ 0)).toFinset

/-- xor of a finite set of ids -/
noncomputable def xorSet (S : Finset UInt64) : UInt64 := xorAll S.toList

instance : RightCommutative (fun (a b : UInt64) => a ^^^ b) := ⟨fun a b c => by
  show a ^^^ b ^^^ c = a ^^^ c ^^^ b
  rw [UInt64.xor_assoc, UInt64.xor_comm b c, ← UInt64.xor_assoc]⟩

theorem xorAll_perm {l l' : List UInt64} (h : l.Perm l') : xorAll l = xorAll l' := by
  unfold xorAll; exact h.foldl_eq 0

theorem xorAll_eq_xorSet {l : List UInt64} (hn : l.Nodup) : xorAll l = xorSet l.toFinset := by
  unfold xorSet
  apply xorAll_perm
  apply List.perm_of_nodup_nodup_toFinset_eq hn (Finset.nodup_toList _)
  simp

/-- what the generic counter knows about one id column `col` after seeing it: `s` -/
def ColInv (cap : Nat) (col s : List UInt64) : Prop :=
  s.Nodup ∧ s.length ≤ cap ∧ (∀ x ∈ s, x ≠ 0 ∧ x ∈ col) ∧ (s.length < cap → ∀ x ∈ col, x ≠ 0 → x ∈ s)

theorem addPid_inv (cap : Nat) (pre s : List UInt64) (x : UInt64) (h : ColInv cap pre s) :
    ColInv cap (pre ++ [x]) (addPid cap s x) := by
  obtain ⟨hn, hl, hm, hc⟩ := h
  unfold addPid
  split
  next hcond =>
    simp only [Bool.and_eq_true, decide_eq_true_eq, bne_iff_ne, ne_eq, Bool.not_eq_true',
      List.contains_eq_mem, decide_eq_false_iff_not] at hcond
    obtain ⟨⟨h1, h2⟩, h3⟩ := hcond
    refine ⟨?_, ?_, ?_, ?_⟩
    · exact List.Nodup.append hn (by simp) (by simpa using h3)
    · simp; omega
    · intro y hy
      simp only [List.mem_append, List.mem_singleton] at hy ⊢
      rcases hy with hy | hy
      · exact ⟨(hm y hy).1, Or.inl (hm y hy).2⟩
      · subst hy; exact ⟨h2, Or.inr rfl⟩
    · intro hlt y hy hy0
      simp only [List.length_append, List.length_singleton] at hlt
      simp only [List.mem_append, List.mem_singleton] at hy ⊢
      rcases hy with hy | hy
      · exact Or.inl (hc (by omega) y hy hy0)
      · exact Or.inr hy
  next hcond =>
    refine ⟨hn, hl, ?_, ?_⟩
    · intro y hy; exact ⟨(hm y hy).1, by simp [(hm y hy).2]⟩
    · intro hlt y hy hy0
      simp only [List.mem_append, List.mem_singleton] at hy
      rcases hy with hy | hy
      · exact hc hlt y hy hy0
      · subst hy
        simp only [Bool.and_eq_true, decide_eq_true_eq, bne_iff_ne, ne_eq, Bool.not_eq_true',
          List.contains_eq_mem, decide_eq_false_iff_not, not_and, not_not] at hcond
        exact hcond ⟨hlt, hy0⟩

theorem foldl_addPid_inv (cap : Nat) (col pre s : List UInt64) (h : ColInv cap pre s) :
    ColInv cap (pre ++ col) (col.foldl (addPid cap) s) := by
  induction col generalizing pre s with
  | nil => simpa using h
  | cons x xs ih =>
    have := ih (pre ++ [x]) (addPid cap s x) (addPid_inv cap pre s x h)
    simpa using this

/-- the state of one id column of the generic counter after the column `col` -/
def colState (cap : Nat) (col : List UInt64) : List UInt64 := col.foldl (addPid cap) []

theorem colState_inv (cap : Nat) (col : List UInt64) : ColInv cap col (colState cap col) := by
  have := foldl_addPid_inv cap col [] [] ⟨List.nodup_nil, by simp, by simp, by simp⟩
  simpa [colState] using this

/-- unsaturated ⇒ the tracked ids are exactly the distinct non-null ids of the column -/
theorem colState_unsaturated {cap : Nat} {col : List UInt64} (h : (colState cap col).length < cap) :
    (colState cap col).toFinset = entitySet col ∧ (colState cap col).length = (entitySet col).card := by
  obtain ⟨hn, _, hm, hc⟩ := colState_inv cap col
  have he : (colState cap col).toFinset = entitySet col := by
    ext y; simp only [entitySet, List.mem_toFinset, List.mem_filter, decide_eq_true_eq]
    constructor
    · intro hy; exact ⟨(hm y hy).2, (hm y hy).1⟩
    · rintro ⟨hy, hy0⟩; exact hc h y hy hy0
  exact ⟨he, by rw [← he, List.toFinset_card_of_nodup hn]⟩

/-- saturated ⇒ the column really holds at least `cap` distinct non-null ids -/
theorem colState_saturated {cap : Nat} {col : List UInt64} (h : ¬ (colState cap col).length < cap) :
    cap ≤ (entitySet col).card := by
  obtain ⟨hn, hl, hm, _⟩ := colState_inv cap col
  have hsub : (colState cap col).toFinset ⊆ entitySet col := by
    intro y hy
    simp only [entitySet, List.mem_toFinset, List.mem_filter, decide_eq_true_eq] at hy ⊢
    exact ⟨(hm y hy).2, (hm y hy).1⟩
  have := Finset.card_le_card hsub
  rw [List.toFinset_card_of_nodup hn] at this
  omega

/-- column `d` of a list of id rows -/
def idColumn (rows : List (List UInt64)) (d : Nat) : List UInt64 := rows.map (·.getD d 0)

theorem addMany_generic (cap : Nat) (rows : List (List UInt64)) (sets : List (List UInt64))
    (h : ∀ r ∈ rows, r.length = sets.length) :
    ∃ sets', (ECounter.generic cap sets).addMany rows = .generic cap sets' ∧ sets'.length = sets.length ∧
      ∀ d, d < sets.length → sets'.getD d [] = (idColumn rows d).foldl (addPid cap) (sets.getD d []) := by
  induction rows generalizing sets with
  | nil => exact ⟨sets, rfl, rfl, fun d _ => rfl⟩
  | cons r rows ih =>
    have hr : r.length = sets.length := h r (by simp)
    have hl : (List.zipWith (addPid cap) sets r).length = sets.length := by simp [hr]
    obtain ⟨sets', h1, h2, h3⟩ := ih (List.zipWith (addPid cap) sets r) (by
      intro r' hr'; rw [hl]; exact h r' (by simp [hr']))
    refine ⟨sets', ?_, by rw [h2, hl], ?_⟩
    · simpa [ECounter.addMany, ECounter.add] using h1
    · intro d hd
      rw [h3 d (by rw [hl]; exact hd)]
      have hd' : d < r.length := by rw [hr]; exact hd
      simp [idColumn, List.getD_eq_getElem?_getD, List.getElem?_zipWith, List.getElem?_eq_getElem hd,
        List.getElem?_eq_getElem hd']

/-- T02.e (one column): the generic counter's state for column `d` after any rows. -/
theorem generic_counter_column (cap dims : Nat) (rows : List (List UInt64)) (h : ∀ r ∈ rows, r.length = dims) :
    ∃ sets', (CounterKind.generic dims cap).newEntity.addMany rows = .generic cap sets' ∧ sets'.length = dims ∧
      ∀ d, d < dims → sets'.getD d [] = colState cap (idColumn rows d) := by
  obtain ⟨sets', h1, h2, h3⟩ := addMany_generic cap rows (List.replicate dims []) (by simpa using h)
  refine ⟨sets', h1, by simpa using h2, ?_⟩
  intro d hd
  have := h3 d (by simpa using hd)
  simpa [colState, List.getD_eq_getElem?_getD, hd] using this

/-- The trackers a counter hands to the low-count rule, as a function of the entity *sets* only. -/
noncomputable def specTrackers (cap dims : Nat) (rows : List (List UInt64)) : List (Int × UInt64) :=
  (List.range dims).filterMap fun d =>
    if (entitySet (idColumn rows d)).card < cap then
      some (((entitySet (idColumn rows d)).card : Int), xorSet (entitySet (idColumn rows d)))
    else none

theorem generic_trackers_eq_spec (cap dims : Nat) (rows : List (List UInt64)) (h : ∀ r ∈ rows, r.length = dims) :
    ((CounterKind.generic dims cap).newEntity.addMany rows).trackers = specTrackers cap dims rows := by
  obtain ⟨sets', h1, h2, h3⟩ := generic_counter_column cap dims rows h
  rw [h1]
  have hs : sets' = (List.range dims).map (fun d => colState cap (idColumn rows d)) := by
    apply List.ext_getElem
    · simp [h2]
    · intro d hd1 hd2
      have hd : d < dims := by rw [← h2]; exact hd1
      have := h3 d hd
      rw [List.getD_eq_getElem?_getD, List.getElem?_eq_getElem hd1] at this
      simpa using this
  subst hs
  simp only [ECounter.trackers, specTrackers]
  induction (List.range dims) with
  | nil => rfl
  | cons d ds ih =>
    simp only [List.map_cons, List.filter_cons, List.filterMap_cons]
    by_cases hu : (colState cap (idColumn rows d)).length < cap
    · obtain ⟨he, hc⟩ := colState_unsaturated hu
      have hn := (colState_inv cap (idColumn rows d)).1
      have hc' : (entitySet (idColumn rows d)).card < cap := by omega
      simp only [hu, decide_true, if_true, hc', List.map_cons, ih]
      rw [xorAll_eq_xorSet hn, he, hc]
    · have hs := colState_saturated hu
      have hc' : ¬ (entitySet (idColumn rows d)).card < cap := by omega
      simp only [hu, decide_false, hc', if_false]
      simpa using ih
