import Mathlib.Algebra.Order.Floor.Ring
import Mathlib.Algebra.Order.Field.Basic
import Mathlib.Data.Int.Log
import Mathlib.Tactic.Ring
import Mathlib.Tactic.Linarith
import Mathlib.Tactic.Positivity
import SdxModel.Scalar
set_option linter.unusedSectionVars false
/-!
# The exact-arithmetic instantiation of the scalar operations

For every linearly ordered field with a floor function (`ℚ`, `ℝ`, …) the extra operations of
`ScalarOps` are given their mathematical meaning. Theorems about the model are proved for this
instance; the executable driver runs the same definitions at `Float`.
-/

section
variable {α : Type} [Field α] [LinearOrder α] [IsStrictOrderedRing α] [FloorRing α]

noncomputable instance fieldScalarOps : ScalarOps α where
  pySum l := l.sum
  ofInt n := (n : α)
  floor x := ((⌊x⌋ : ℤ) : α)
  nextPow2 x := (2 : α) ^ (Int.clog 2 x)
  trunc x := if 0 ≤ x then ⌊x⌋ else ⌈x⌉
  roundHE x := if x - ⌊x⌋ < 1 / 2 then ⌊x⌋ else if 1 / 2 < x - ⌊x⌋ then ⌊x⌋ + 1 else if ⌊x⌋ % 2 = 0 then ⌊x⌋ else ⌊x⌋ + 1

@[simp] theorem ofInt_eq (n : Int) : (ofInt n : α) = (n : α) := rfl
@[simp] theorem sfloor_eq (x : α) : (ScalarOps.floor x : α) = ((⌊x⌋ : ℤ) : α) := rfl
@[simp] theorem snextPow2_eq (x : α) : (ScalarOps.nextPow2 x : α) = (2 : α) ^ (Int.clog 2 x) := rfl
theorem strunc_eq (x : α) : (ScalarOps.trunc x : Int) = if 0 ≤ x then ⌊x⌋ else ⌈x⌉ := rfl
theorem sroundHE_eq (x : α) : (ScalarOps.roundHE x : Int) =
    if x - ⌊x⌋ < 1 / 2 then ⌊x⌋ else if 1 / 2 < x - ⌊x⌋ then ⌊x⌋ + 1 else if ⌊x⌋ % 2 = 0 then ⌊x⌋ else ⌊x⌋ + 1 := rfl

end
