import SdxProofs.FlattenLemmas
import Mathlib.Tactic.Linarith
set_option linter.unusedSectionVars false
/-!
`sorted(contributions.items(), key=(count, pid), reverse=True)`: the result is the unique arrangement that is
decreasing in the key `(count, pid)`. From that: raising the contributions of the entities that already head the
list leaves them at the head and the tail untouched.
-/

/-- `a` is not behind `b`: `key a ≥ key b` for the key `(count, pid)` -/
def keyGe (a b : UInt64 × Nat) : Prop := ¬ (b.2 > a.2 ∨ (b.2 = a.2 ∧ b.1 > a.1))

theorem keyGe_iff (a b : UInt64 × Nat) : keyGe a b ↔ (a.2 > b.2 ∨ (a.2 = b.2 ∧ a.1.toNat ≥ b.1.toNat)) := by
  unfold keyGe
  have : b.1 > a.1 ↔ b.1.toNat > a.1.toNat := UInt64.lt_iff_toNat_lt
  rw [this]
  omega

theorem keyGe_trans {a b c : UInt64 × Nat} (h1 : keyGe a b) (h2 : keyGe b c) : keyGe a c := by
  rw [keyGe_iff] at *; omega

theorem keyGe_antisymm {a b : UInt64 × Nat} (h1 : keyGe a b) (h2 : keyGe b a) : a = b := by
  rw [keyGe_iff] at *
  have h3 : a.2 = b.2 := by omega
  have h4 : a.1.toNat = b.1.toNat := by omega
  exact Prod.ext (UInt64.toNat_inj.mp h4) h3

theorem keyGe_total (a b : UInt64 × Nat) : keyGe a b ∨ keyGe b a := by
  rw [keyGe_iff, keyGe_iff]; omega

theorem insertDesc_cond (x y : UInt64 × Nat) :
    ((decide (x.2 > y.2) || (x.2 == y.2 && decide (x.1 > y.1))) = true) ↔ ¬ keyGe y x := by
  unfold keyGe
  simp only [Bool.or_eq_true, decide_eq_true_eq, Bool.and_eq_true, beq_iff_eq, not_not]

theorem insertDesc_sortedKey (x : UInt64 × Nat) (l : List (UInt64 × Nat)) (h : l.Pairwise keyGe) :
    (insertDesc x l).Pairwise keyGe := by
  induction l with
  | nil => simp [insertDesc]
  | cons y ys ih =>
    unfold insertDesc
    have hy := List.pairwise_cons.mp h
    by_cases hc : (decide (x.2 > y.2) || (x.2 == y.2 && decide (x.1 > y.1))) = true
    · rw [if_pos hc]
      have hxy : keyGe x y := by
        rcases keyGe_total x y with h1 | h1
        · exact h1
        · exact absurd h1 ((insertDesc_cond x y).mp hc)
      refine List.pairwise_cons.mpr ⟨?_, h⟩
      intro b hb
      rcases List.mem_cons.mp hb with rfl | hb
      · exact hxy
      · exact keyGe_trans hxy (hy.1 b hb)
    · rw [if_neg hc]
      have hyx : keyGe y x := by
        by_contra hn
        exact hc ((insertDesc_cond x y).mpr hn)
      refine List.pairwise_cons.mpr ⟨?_, ih hy.2⟩
      intro b hb
      rcases List.mem_cons.mp ((insertDesc_perm x ys).mem_iff.mp hb) with rfl | hb
      · exact hyx
      · exact hy.1 b hb

theorem sortDesc_sortedKey (l : List (UInt64 × Nat)) : (sortDesc l).Pairwise keyGe := by
  induction l with
  | nil => simp [sortDesc]
  | cons x xs ih => exact insertDesc_sortedKey x _ ih

/-- the sorted list is the only key-decreasing arrangement -/
theorem sortDesc_unique (l m : List (UInt64 × Nat)) (hp : l.Perm m) (hm : m.Pairwise keyGe) : sortDesc l = m :=
  List.Perm.eq_of_pairwise (fun _ _ _ _ h1 h2 => keyGe_antisymm h1 h2) (sortDesc_sortedKey l) hm ((sortDesc_perm l).trans hp)

/-- the entities listed in `ids` contribute `f pid` more rows -/
def raiseContrib (ids : List UInt64) (f : UInt64 → Nat) (p : UInt64 × Nat) : UInt64 × Nat :=
  if ids.contains p.1 then (p.1, p.2 + f p.1) else p

theorem raiseContrib_fst (ids : List UInt64) (f : UInt64 → Nat) (p : UInt64 × Nat) : (raiseContrib ids f p).1 = p.1 := by
  unfold raiseContrib; split_ifs <;> rfl

/-- Raising the contributions of the entities at the head of the sorted list keeps them at the head (in some order)
and leaves the rest of the sorted list exactly as it was. -/
theorem raise_heaviest_shape (l : List (UInt64 × Nat)) (hnd : (l.map (·.1)).Nodup) (hd tl : List (UInt64 × Nat))
    (hs : sortDesc l = hd ++ tl) (f : UInt64 → Nat) :
    ∃ hd', sortDesc (l.map (raiseContrib (hd.map (·.1)) f)) = hd' ++ tl ∧ hd'.length = hd.length ∧
      (hd.map (·.1)).Perm (hd'.map (·.1)) ∧ (∀ a ∈ hd', ∀ b ∈ tl, b.2 ≤ a.2) := by
  set ids := hd.map (·.1) with hids
  have hperm : l.Perm (hd ++ tl) := by rw [← hs]; exact (sortDesc_perm l).symm
  have hsorted : (hd ++ tl).Pairwise keyGe := by rw [← hs]; exact sortDesc_sortedKey l
  have hnd' : ((hd ++ tl).map (·.1)).Nodup := (hperm.map _).nodup_iff.mp hnd
  rw [List.map_append, List.nodup_append] at hnd'
  have htl : tl.map (raiseContrib ids f) = tl := by
    conv_rhs => rw [← List.map_id tl]
    apply List.map_congr_left
    intro b hb
    unfold raiseContrib
    have : ¬ ids.contains b.1 = true := by
      simp only [List.contains_eq_mem, decide_eq_true_eq]
      intro hmem
      exact hnd'.2.2 b.1 hmem b.1 (List.mem_map.mpr ⟨b, hb, rfl⟩) rfl
    rw [if_neg this]; rfl
  refine ⟨sortDesc (hd.map (raiseContrib ids f)), ?_, ?_, ?_, ?_⟩
  · apply sortDesc_unique
    · refine (hperm.map _).trans ?_
      rw [List.map_append, htl]
      exact ((sortDesc_perm _).symm).append_right tl
    · rw [List.pairwise_append]
      refine ⟨sortDesc_sortedKey _, (List.pairwise_append.mp hsorted).2.1, ?_⟩
      intro a' ha' b hb
      have ha'' := (sortDesc_perm _).mem_iff.mp ha'
      obtain ⟨a, ha, rfl⟩ := List.mem_map.mp ha''
      have hab := (List.pairwise_append.mp hsorted).2.2 a ha b hb
      have hin : ids.contains a.1 = true := by
        simp only [List.contains_eq_mem, decide_eq_true_eq, hids]
        exact List.mem_map.mpr ⟨a, ha, rfl⟩
      unfold raiseContrib
      rw [if_pos hin]
      rw [keyGe_iff] at hab ⊢
      simp only
      omega
  · rw [(sortDesc_perm _).length_eq, List.length_map]
  · refine List.Perm.symm (((sortDesc_perm _).map _).trans ?_)
    rw [List.map_map]
    have : ((fun x : UInt64 × Nat => x.1) ∘ raiseContrib ids f) = (fun x => x.1) := by
      funext p; exact raiseContrib_fst ids f p
    rw [this]
  · intro a' ha' b hb
    have ha'' := (sortDesc_perm _).mem_iff.mp ha'
    obtain ⟨a, ha, rfl⟩ := List.mem_map.mp ha''
    have hab := (List.pairwise_append.mp hsorted).2.2 a ha b hb
    rw [keyGe_iff] at hab
    unfold raiseContrib
    split_ifs
    · show b.2 ≤ a.2 + f a.1; omega
    · omega
