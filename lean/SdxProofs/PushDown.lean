import SdxProofs.TreeInv
import Mathlib.Tactic.IntervalCases
set_option linter.unusedSectionVars false
set_option linter.unusedVariables false
/-!
# The 1-dim root push-down and outlier folding

`TInvO E c root out t`: the tree invariant with a set `out` of folded rows that are exempt from the clauses about
values (containment, tight range, routing) but still counted (entity counter, rows held).
-/

section
variable {α : Type} [Field α] [LinearOrder α] [IsStrictOrderedRing α] [FloorRing α] [Inhabited α]

/-- the rows of `all` that were not folded in as outliers -/
def inRows (out all : List Nat) : List Nat := all.filter (fun r => !out.contains r)

theorem mem_inRows {out all : List Nat} {x : Nat} : x ∈ inRows out all ↔ x ∈ all ∧ x ∉ out := by
  simp [inRows]

structure NodeOKO (E : Env α) (c : FCtx α) (root : List (Ival α)) (out : List Nat) (d : NodeData α)
    (subs : List (Option (Node α))) (all : List Nat) : Prop where
  lenS : d.snapped.length = d.comb.length
  lenA : d.actual.length = d.comb.length
  nonempty : inRows out all ≠ []
  inside : ∀ r ∈ inRows out all, RowInside c root d r
  hull : ∀ j < d.comb.length, HullOf (d.actual.getD j default) ((inRows out all).map fun r => c.value r (d.comb.getD j 0))
  stub : d.isStub = stubFlag E c subs
  counter : ∃ hist : List Nat, hist.Perm all ∧ d.counter = c.kind.newEntity.addMany (hist.map c.pidRow)
  subsOK : SubsOK d.comb d.snapped subs

structure BranchOKO (E : Env α) (c : FCtx α) (out : List Nat) (d : NodeData α) (subs : List (Option (Node α)))
    (ch : List (Nat × Node α)) (all : List Nat) : Prop where
  keys : (ch.map (·.1)).Nodup
  child : ∀ p ∈ ch, p.2.data.comb = d.comb ∧ p.2.data.path = d.path ++ [p.1] ∧ p.2.data.baseSeed = d.baseSeed ∧
    p.2.data.snapped = childRanges d p.1
  route : ∀ p ∈ ch, ∀ r ∈ inRows out p.2.allRows, childIndex d.snapped (c.vals d.comb r) = p.1
  notStub : d.isStub = false
  notSing : d.actual.all Ival.isSing = false
  licence : ∃ h0 : List Nat, h0.Subperm all ∧
    (c.kind.newEntity.addMany (h0.map c.pidRow)).isLowCount E c.ap.salt c.ap.supp = false

inductive TInvO (E : Env α) (c : FCtx α) (root : List (Ival α)) (out : List Nat) : Node α → Prop
  | leaf (d : NodeData α) (subs : List (Option (Node α))) (rows : List Nat) :
      NodeOKO E c root out d subs rows → TInvO E c root out (.leaf d subs rows)
  | branch (d : NodeData α) (subs : List (Option (Node α))) (ch : List (Nat × Node α)) :
      NodeOKO E c root out d subs (Node.allRows (.branch d subs ch)) →
      BranchOKO E c out d subs ch (Node.allRows (.branch d subs ch)) →
      (∀ p ∈ ch, TInvO E c root out p.2) → TInvO E c root out (.branch d subs ch)

theorem inRows_congr {out out' all : List Nat} (h : ∀ r ∈ all, (r ∈ out' ↔ r ∈ out)) : inRows out' all = inRows out all := by
  unfold inRows
  apply List.filter_congr
  intro x hx
  have := h x hx
  by_cases h1 : x ∈ out <;> simp [h1, this.mpr, this]

theorem inRows_nil (all : List Nat) : inRows [] all = all := by simp [inRows]

theorem NodeOKO.congr {E : Env α} {c : FCtx α} {root : List (Ival α)} {out out' : List Nat} {d : NodeData α}
    {subs : List (Option (Node α))} {all : List Nat} (h : NodeOKO E c root out d subs all)
    (he : ∀ r ∈ all, (r ∈ out' ↔ r ∈ out)) : NodeOKO E c root out' d subs all := by
  have e := inRows_congr he
  exact ⟨h.lenS, h.lenA, by rw [e]; exact h.nonempty, by rw [e]; exact h.inside, by rw [e]; exact h.hull, h.stub, h.counter, h.subsOK⟩

/-- changing the outlier set outside the rows a tree holds changes nothing -/
theorem TInvO.congr {E : Env α} {c : FCtx α} {root : List (Ival α)} {out out' : List Nat} {t : Node α}
    (h : TInvO E c root out t) (he : ∀ r ∈ t.allRows, (r ∈ out' ↔ r ∈ out)) : TInvO E c root out' t := by
  induction h with
  | leaf d subs rows hN => exact TInvO.leaf _ _ _ (hN.congr (by simpa [Node.allRows_leaf] using he))
  | branch d subs ch hN hB hC ih =>
    refine TInvO.branch _ _ _ (hN.congr he) ⟨hB.keys, hB.child, ?_, hB.notStub, hB.notSing, hB.licence⟩ ?_
    · intro p hp r hr
      have e := inRows_congr (out := out) (out' := out') (all := p.2.allRows)
        (fun r hr => he r (mem_allRows_of_child d subs ch p hp r hr))
      rw [e] at hr
      exact hB.route p hp r hr
    · intro p hp
      exact ih p hp (fun r hr => he r (mem_allRows_of_child d subs ch p hp r hr))

/-- a tree without outliers -/
theorem TInvO.ofTInv {E : Env α} {c : FCtx α} {root : List (Ival α)} {t : Node α} (h : TInv E c root t) :
    TInvO E c root [] t := by
  unfold TInv at h
  generalize hex : ([] : List Nat) = ex at h
  induction h with
  | leaf extra d subs rows hN =>
    subst hex
    simp only [List.nil_append] at hN
    exact TInvO.leaf _ _ _ ⟨hN.lenS, hN.lenA, by rw [inRows_nil]; exact hN.nonempty, by rw [inRows_nil]; exact hN.inside,
      by rw [inRows_nil]; exact hN.hull, hN.stub, hN.counter, hN.subsOK⟩
  | branch extra d subs ch hN hB hC ih =>
    subst hex
    simp only [List.nil_append] at hN hB
    refine TInvO.branch _ _ _ ⟨hN.lenS, hN.lenA, by rw [inRows_nil]; exact hN.nonempty, by rw [inRows_nil]; exact hN.inside,
      by rw [inRows_nil]; exact hN.hull, hN.stub, hN.counter, hN.subsOK⟩ ⟨hB.keys, hB.child, ?_, hB.notStub, hB.notSing, hB.licence⟩ ?_
    · intro p hp r hr
      rw [inRows_nil] at hr
      exact hB.route p hp r hr
    · intro p hp
      exact ih p hp rfl


theorem mem_inRows_fold {out all all' : List Nat} {row : Nat} (hp : all'.Perm (all ++ [row])) (hr : row ∈ out) (x : Nat) :
    x ∈ inRows out all' ↔ x ∈ inRows out all := by
  rw [mem_inRows, mem_inRows, hp.mem_iff]
  simp only [List.mem_append, List.mem_singleton]
  constructor
  · rintro ⟨h1 | h1, h2⟩
    · exact ⟨h1, h2⟩
    · subst h1; exact absurd hr h2
  · rintro ⟨h1, h2⟩; exact ⟨Or.inl h1, h2⟩

/-- folding an outlier row into a node's data: only the entity counter changes -/
theorem NodeOKO.fold {E : Env α} {c : FCtx α} {root : List (Ival α)} {out : List Nat} {d : NodeData α}
    {subs : List (Option (Node α))} {all all' : List Nat} (row : Nat) (h : NodeOKO E c root out d subs all)
    (hp : all'.Perm (all ++ [row])) (hr : row ∈ out) :
    NodeOKO E c root out { d with counter := d.counter.add (c.pidRow row) } subs all' := by
  have hm := mem_inRows_fold hp hr
  refine ⟨h.lenS, h.lenA, ?_, ?_, ?_, h.stub, ?_, h.subsOK⟩
  · obtain ⟨x, hx⟩ := List.exists_mem_of_ne_nil _ h.nonempty
    exact List.ne_nil_of_mem ((hm x).mpr hx)
  · intro r hr'; exact h.inside r ((hm r).mp hr')
  · intro j hj
    refine (h.hull j hj).congr ?_
    intro x
    simp only [List.mem_map]
    constructor
    · rintro ⟨r, hr', rfl⟩; exact ⟨r, (hm r).mp hr', rfl⟩
    · rintro ⟨r, hr', rfl⟩; exact ⟨r, (hm r).mpr hr', rfl⟩
  · obtain ⟨hist, hperm, hc⟩ := h.counter
    refine ⟨hist ++ [row], (hperm.append_right [row]).trans hp.symm, ?_⟩
    simp [hc, ECounter.addMany, List.foldl_append]

/-- `_add_1dim_outlier_row` keeps the invariant (the row being one of the exempt ones), adds exactly that row, and
changes no range. -/
theorem addOutlier_inv (E : Env α) (c : FCtx α) (root : List (Ival α)) (out : List Nat) :
    ∀ (fuel : Nat) (t : Node α) (row : Nat) (t' : Node α), TInvO E c root out t → row ∈ out →
      addOutlier c fuel t row = some t' →
      TInvO E c root out t' ∧ t'.allRows.Perm (t.allRows ++ [row]) ∧ SameId t t' ∧ t'.data.actual = t.data.actual := by
  intro fuel
  induction fuel with
  | zero => intro t row t' _ _ h; simp [addOutlier] at h
  | succ fuel IH =>
    intro t row t' hT hr h
    cases hT with
    | leaf d subs rows hN =>
      simp only [addOutlier, Option.some.injEq] at h
      subst h
      refine ⟨TInvO.leaf _ _ _ (hN.fold row (List.Perm.refl _) hr), by simp [Node.allRows_leaf], ⟨rfl, rfl, rfl, rfl, rfl⟩, rfl⟩
    | branch d subs ch hN hB hC =>
      rw [addOutlier] at h
      cases hf : ch.find? (fun p => p.1 == outlierIndex c d ch row) with
      | none => rw [hf] at h; cases h
      | some q0 =>
        rw [hf] at h
        simp only [Option.map_eq_some_iff] at h
        obtain ⟨ch', hm, ht'⟩ := h
        subst ht'
        rcases mapM_update_spec (fun n => addOutlier c fuel n row) _ ch ch' hB.keys hm with
          ⟨hnone, _⟩ | ⟨pre, q, post, n', hch, hqi, hfq, hch', hpre, hpost⟩
        · exfalso
          exact hnone q0 (List.mem_of_find?_eq_some hf) (by simpa using List.find?_some hf)
        · have hqm : q ∈ ch := by rw [hch]; simp
          obtain ⟨hTn, hpn, hidn, _⟩ := IH q.2 row n' (hC q hqm) hr hfq
          have hperm : (Node.branch { d with counter := d.counter.add (c.pidRow row) } subs ch').allRows.Perm
              ((Node.branch d subs ch).allRows ++ [row]) := by
            rw [hch', hch, allRows_split, allRows_split]
            simp only [List.append_assoc]
            refine List.Perm.append_left _ ?_
            refine ((hpn.append_right _)).trans ?_
            simp only [List.append_assoc]
            refine List.Perm.append_left _ ?_
            exact List.perm_append_comm
          refine ⟨?_, hperm, ⟨rfl, rfl, rfl, rfl, rfl⟩, rfl⟩
          apply TInvO.branch _ _ _ (hN.fold row hperm hr)
          · refine ⟨?_, ?_, ?_, hB.notStub, hB.notSing, ?_⟩
            · have : ch'.map (·.1) = ch.map (·.1) := by rw [hch', hch]; simp
              rw [this]; exact hB.keys
            · intro p hp
              rw [hch'] at hp
              rcases List.mem_append.mp hp with hp | hp
              · exact hB.child p (by rw [hch]; simp [hp])
              · rcases List.mem_cons.mp hp with rfl | hp
                · obtain ⟨qc, qp, qb, qs⟩ := hB.child q hqm
                  exact ⟨hidn.1.trans qc, hidn.2.1.trans qp, hidn.2.2.1.trans qb, hidn.2.2.2.1.trans qs⟩
                · exact hB.child p (by rw [hch]; simp [hp])
            · intro p hp r hr'
              rw [hch'] at hp
              rcases List.mem_append.mp hp with hp | hp
              · exact hB.route p (by rw [hch]; simp [hp]) r hr'
              · rcases List.mem_cons.mp hp with rfl | hp
                · exact hB.route q hqm r ((mem_inRows_fold hpn hr r).mp hr')
                · exact hB.route p (by rw [hch]; simp [hp]) r hr'
            · obtain ⟨h0, hs0, hl0⟩ := hB.licence
              exact ⟨h0, hs0.trans ((List.sublist_append_left _ [row]).subperm.trans hperm.symm.subperm), hl0⟩
          · intro p hp
            rw [hch'] at hp
            rcases List.mem_append.mp hp with hp | hp
            · exact hC p (by rw [hch]; simp [hp])
            · rcases List.mem_cons.mp hp with rfl | hp
              · exact hTn
              · exact hC p (by rw [hch]; simp [hp])


/-- folding a list of outlier rows -/
theorem foldOutliers_inv (E : Env α) (c : FCtx α) (root : List (Ival α)) (out : List Nat) (fuel : Nat) :
    ∀ (l : List Nat) (t t' : Node α), TInvO E c root out t → (∀ r ∈ l, r ∈ out) →
      l.foldlM (fun t r => addOutlier c fuel t r) t = some t' →
      TInvO E c root out t' ∧ t'.allRows.Perm (t.allRows ++ l) ∧ SameId t t' := by
  intro l
  induction l with
  | nil =>
    intro t t' hT _ h
    simp only [List.foldlM_nil, Option.pure_def, Option.some.injEq] at h
    subst h
    exact ⟨hT, by simp, SameId.refl _⟩
  | cons r l ih =>
    intro t t' hT hl h
    rw [List.foldlM_cons] at h
    simp only [Option.bind_eq_bind, Option.bind_eq_some_iff] at h
    obtain ⟨t1, h1, h2⟩ := h
    obtain ⟨hT1, hp1, hid1, _⟩ := addOutlier_inv E c root out fuel t r t1 hT (hl r (by simp)) h1
    obtain ⟨hT2, hp2, hid2⟩ := ih t1 t' hT1 (fun x hx => hl x (by simp [hx])) h2
    refine ⟨hT2, ?_, hid1.trans hid2⟩
    refine hp2.trans ((hp1.append_right l).trans ?_)
    simp

/-- the rows below an optional child -/
def rowsOf : Option (Node α) → List Nat
  | none => []
  | some n => n.allRows

/-- a 1-dim branch has at most the children `0` and `1` -/
theorem children_two_keys (ch : List (Nat × Node α)) (hk : (ch.map (·.1)).Nodup) (h2 : ∀ p ∈ ch, p.1 < 2) :
    ((ch.map fun p => p.2.allRows).flatten).Perm (rowsOf (lookupChild ch 0) ++ rowsOf (lookupChild ch 1)) := by
  match ch with
  | [] => simp [lookupChild, rowsOf]
  | [(ka, na)] =>
    have := h2 (ka, na) (by simp)
    simp only at this
    interval_cases ka <;> simp [lookupChild, rowsOf]
  | [(ka, na), (kb, nb)] =>
    have h1 := h2 (ka, na) (by simp)
    have h3 := h2 (kb, nb) (by simp)
    simp only at h1 h3
    simp only [List.map_cons, List.map_nil, List.nodup_cons, List.mem_singleton, List.not_mem_nil, not_false_eq_true,
      List.nodup_nil, and_true] at hk
    interval_cases ka <;> interval_cases kb <;> simp_all [lookupChild, rowsOf, List.perm_append_comm]
  | (ka, na) :: (kb, nb) :: (kc, nc) :: rest =>
    exfalso
    have h1 := h2 (ka, na) (by simp)
    have h3 := h2 (kb, nb) (by simp)
    have h4 := h2 (kc, nc) (by simp)
    simp only [List.map_cons, List.nodup_cons, List.mem_cons, not_or] at hk
    simp only at h1 h3 h4
    omega

/-- `_get_low_count_rows_in_child`: the rows returned are the child's rows -/
theorem lowRows_some {E : Env α} {c : FCtx α} {ch : List (Nat × Node α)} {k : Nat} {rs : List Nat}
    (h : lowRows E c ch k = some rs) : rs = rowsOf (lookupChild ch k) := by
  unfold lowRows at h
  split at h
  · rename_i he; rw [he]; simpa [rowsOf] using h.symm
  · rename_i d s rows he
    rw [he]
    split_ifs at h
    simp only [Option.some.injEq] at h
    simp [rowsOf, Node.allRows_leaf, h]
  · cases h


/-- beyond a range, the way routing sees it: below the lower end, or at/above the upper end -/
def Outside (iv : Ival α) (v : α) : Prop := v < iv.lo ∨ iv.hi ≤ v
def NestedIn (a b : Ival α) : Prop := b.lo ≤ a.lo ∧ a.hi ≤ b.hi
def rootIv (t : Node α) : Ival α := t.data.snapped.getD 0 default

theorem one_dim_route (c : FCtx α) (d : NodeData α) (hS : d.snapped.length = d.comb.length) (h1 : d.comb.length = 1) (r : Nat) :
    childIndex d.snapped (c.vals d.comb r) = (d.snapped.getD 0 default).halfIndex (c.value r (d.comb.getD 0 0)) := by
  obtain ⟨col, hcol⟩ := List.length_eq_one_iff.mp h1
  obtain ⟨iv, hiv⟩ := List.length_eq_one_iff.mp (hS.trans h1)
  rw [hcol, hiv]
  simp [childIndex, FCtx.vals]

theorem one_dim_child_range (d : NodeData α) (hS : d.snapped.length = d.comb.length) (h1 : d.comb.length = 1) (k : Nat) :
    (childRanges d k).getD 0 default = (d.snapped.getD 0 default).half (k % 2) := by
  rw [childRanges_getD d k 0 hS (by omega), h1]
  simp

theorem half_nested (iv : Ival α) (h : iv.lo ≤ iv.hi) (k : Nat) :
    NestedIn (iv.half k) iv ∧ (iv.half k).lo ≤ (iv.half k).hi := by
  have hm : iv.lo ≤ iv.middle ∧ iv.middle ≤ iv.hi := by
    unfold Ival.middle
    split_ifs
    · exact ⟨le_refl _, h⟩
    · simp only [ofInt_eq, Int.cast_ofNat]
      constructor <;> linarith
  unfold Ival.half NestedIn
  split_ifs
  · simp only [Ival.lowerHalf]; exact ⟨⟨le_refl _, hm.2⟩, hm.1⟩
  · simp only [Ival.upperHalf]; exact ⟨⟨hm.1, le_refl _⟩, hm.2⟩

theorem Outside.mono {a b : Ival α} {v : α} (hn : NestedIn a b) (h : Outside b v) : Outside a v := by
  rcases h with h | h
  · exact Or.inl (lt_of_lt_of_le h hn.1)
  · exact Or.inr (le_trans hn.2 h)


theorem TInvX.rows_ne_nil {E : Env α} {c : FCtx α} {root : List (Ival α)} {t : Node α} (h : TInvX E c root [] t) :
    t.allRows ≠ [] := by
  cases h with
  | leaf _ d s rows hN => simpa [Node.allRows_leaf] using hN.nonempty
  | branch _ d s ch hN _ _ => simpa using hN.nonempty

theorem outside_other_half (iv : Ival α) (v : α) (k : Nat) (hk : k < 2) (hi : iv.halfIndex v = 1 - k)
    (hs : k = 1 → iv.isSing = false) : Outside (iv.half k) v := by
  interval_cases k
  · -- routed up, kept the lower half
    unfold Ival.halfIndex at hi
    split_ifs at hi with hc
    simp only [Bool.or_eq_true, decide_eq_true_eq, not_or, not_lt] at hc
    right
    simp only [Ival.half, Ival.lowerHalf, if_true]
    exact hc.2
  · have hns := hs rfl
    unfold Ival.halfIndex at hi
    split_ifs at hi with hc
    · simp only [hns, Bool.false_or, decide_eq_true_eq] at hc
      left
      simp only [Ival.half, Ival.upperHalf, one_ne_zero, if_false]
      exact hc

/-- one level of `push_down_1dim_root`: descend into the child under key `k`, fold the rows of the other child -/
theorem pushDown_step (E : Env α) (c : FCtx α) (root : List (Ival α)) (d : NodeData α) (subs : List (Option (Node α)))
    (ch : List (Nat × Node α)) (k : Nat) (hk : k < 2) (ck t1 t' : Node α) (out1 : List Nat) (F : Nat)
    (hT : TInv E c root (.branch d subs ch)) (h1 : d.comb.length = 1) (hnd : (Node.branch d subs ch).allRows.Nodup)
    (hord : (d.snapped.getD 0 default).lo ≤ (d.snapped.getD 0 default).hi)
    (hck : lookupChild ch k = some ck)
    (hT1 : TInvO E c root out1 t1) (hp1 : t1.allRows.Perm ck.allRows) (hc1 : t1.data.comb = ck.data.comb)
    (hn1 : NestedIn (rootIv t1) (rootIv ck)) (ho1 : (rootIv t1).lo ≤ (rootIv t1).hi)
    (hout1 : ∀ r ∈ out1, r ∈ t1.allRows ∧ Outside (rootIv t1) (c.value r (ck.data.comb.getD 0 0)))
    (hf : (rowsOf (lookupChild ch (1 - k))).foldlM (fun t r => addOutlier c F t r) t1 = some t') :
    ∃ out, TInvO E c root out t' ∧ t'.allRows.Perm (Node.branch d subs ch).allRows ∧ t'.data.comb = d.comb ∧
      NestedIn (rootIv t') (d.snapped.getD 0 default) ∧ (rootIv t').lo ≤ (rootIv t').hi ∧
      ∀ r ∈ out, r ∈ t'.allRows ∧ Outside (rootIv t') (c.value r (d.comb.getD 0 0)) := by
  cases hT with
  | branch _ _ _ _ hN hB hC =>
  have hS := hN.lenS
  -- every key is 0 or 1
  have hroute : ∀ p ∈ ch, ∀ r ∈ p.2.allRows,
      (d.snapped.getD 0 default).halfIndex (c.value r (d.comb.getD 0 0)) = p.1 := by
    intro p hp r hr
    rw [← one_dim_route c d hS h1 r]; exact hB.route p hp r hr
  have hkeys : ∀ p ∈ ch, p.1 < 2 := by
    intro p hp
    obtain ⟨r, hr⟩ := List.exists_mem_of_ne_nil _ (hC p hp).rows_ne_nil
    rw [← hroute p hp r hr]; exact halfIndex_lt_two _ _
  have hckm := lookupChild_mem hck
  obtain ⟨kc, kp, kb, ks⟩ := hB.child _ hckm
  simp only at kc kp kb ks
  -- the rows of the branch are those of the kept child and the folded ones
  have hperm : (Node.branch d subs ch).allRows.Perm (ck.allRows ++ rowsOf (lookupChild ch (1 - k))) := by
    rw [Node.allRows_branch]
    refine (children_two_keys ch hB.keys hkeys).trans ?_
    interval_cases k
    · simp [hck, rowsOf]
    · simp only [hck, rowsOf, Nat.sub_self]; exact List.perm_append_comm
  have hnd2 := hperm.nodup_iff.mp hnd
  have hdisj : ∀ r ∈ ck.allRows, r ∉ rowsOf (lookupChild ch (1 - k)) := by
    intro r hr hr'
    exact (List.nodup_append.mp hnd2).2.2 r hr r hr' rfl
  -- the recursive result, with the rows about to be folded declared exempt
  have hT1' : TInvO E c root (out1 ++ rowsOf (lookupChild ch (1 - k))) t1 := by
    refine hT1.congr ?_
    intro r hr
    have := hdisj r (hp1.subset hr)
    simp [this]
  obtain ⟨hT', hp', hid'⟩ := foldOutliers_inv E c root _ F _ t1 t' hT1' (fun r hr => by simp [hr]) hf
  have hroot' : rootIv t' = rootIv t1 := by unfold rootIv; rw [hid'.2.2.2.1]
  have hrootck : rootIv ck = (d.snapped.getD 0 default).half k := by
    unfold rootIv
    rw [ks, one_dim_child_range d hS h1 k, Nat.mod_eq_of_lt hk]
  have hnest := half_nested (d.snapped.getD 0 default) hord k
  refine ⟨out1 ++ rowsOf (lookupChild ch (1 - k)), hT', ?_, ?_, ?_, ?_, ?_⟩
  · exact hp'.trans ((hp1.append_right _).trans hperm.symm)
  · rw [hid'.1, hc1, kc]
  · rw [hroot']
    rw [hrootck] at hn1
    exact ⟨le_trans hnest.1.1 hn1.1, le_trans hn1.2 hnest.1.2⟩
  · rw [hroot']; exact ho1
  · intro r hr
    rw [hroot']
    rcases List.mem_append.mp hr with hr | hr
    · have := hout1 r hr
      refine ⟨hp'.symm.subset (by simp [this.1]), ?_⟩
      rw [← kc]; exact this.2
    · refine ⟨hp'.symm.subset (by simp [hr]), ?_⟩
      -- a folded row routes to the other key
      cases hl : lookupChild ch (1 - k) with
      | none => rw [hl] at hr; simp [rowsOf] at hr
      | some c' =>
        rw [hl] at hr
        simp only [rowsOf] at hr
        have hcm := lookupChild_mem hl
        have hri := hroute _ hcm r hr
        simp only at hri
        have hns : k = 1 → (d.snapped.getD 0 default).isSing = false := by
          intro hk1
          obtain ⟨r1, hr1⟩ := List.exists_mem_of_ne_nil _ (hC _ hckm).rows_ne_nil
          have h2 : (d.snapped.getD 0 default).halfIndex (c.value r1 (d.comb.getD 0 0)) = k := hroute _ hckm r1 hr1
          by_contra hsing
          simp only [Bool.not_eq_false] at hsing
          rw [hk1] at h2
          unfold Ival.halfIndex at h2
          rw [hsing] at h2
          simp at h2
        have := outside_other_half _ _ k hk hri hns
        rw [← hrootck] at this
        exact this.mono hn1


theorem lowRows_none_child {E : Env α} {c : FCtx α} {ch : List (Nat × Node α)} {k : Nat}
    (h : lowRows E c ch k = none) : ∃ n, lookupChild ch k = some n := by
  unfold lowRows at h
  split at h
  · cases h
  · rename_i he; exact ⟨_, he⟩
  · rename_i he; exact ⟨_, he⟩

/-- `push_down_1dim_root` on a 1-dim tree built by `add_row`: the result satisfies the invariant with an exempt set
`out`; it holds exactly the rows of the original tree; its root range is nested in the original root range; and
every exempt row lies beyond the final root range. -/
theorem pushDown_inv (E : Env α) (c : FCtx α) (root : List (Ival α)) :
    ∀ (fuel : Nat) (t t' : Node α), TInv E c root t → t.data.comb.length = 1 → t.allRows.Nodup →
      (rootIv t).lo ≤ (rootIv t).hi → pushDown E c fuel t = some t' →
      ∃ out, TInvO E c root out t' ∧ t'.allRows.Perm t.allRows ∧ t'.data.comb = t.data.comb ∧
        NestedIn (rootIv t') (rootIv t) ∧ (rootIv t').lo ≤ (rootIv t').hi ∧
        ∀ r ∈ out, r ∈ t'.allRows ∧ Outside (rootIv t') (c.value r (t.data.comb.getD 0 0)) := by
  intro fuel
  induction fuel with
  | zero => intro t t' _ _ _ _ h; simp [pushDown] at h
  | succ fuel IH =>
    intro t t' hT h1 hnd hord h
    have trivialCase : t' = t → ∃ out, TInvO E c root out t' ∧ t'.allRows.Perm t.allRows ∧ t'.data.comb = t.data.comb ∧
        NestedIn (rootIv t') (rootIv t) ∧ (rootIv t').lo ≤ (rootIv t').hi ∧
        ∀ r ∈ out, r ∈ t'.allRows ∧ Outside (rootIv t') (c.value r (t.data.comb.getD 0 0)) := by
      intro e; subst e
      exact ⟨[], TInvO.ofTInv hT, List.Perm.refl _, rfl, ⟨le_refl _, le_refl _⟩, hord, by simp⟩
    cases t with
    | leaf d s rows =>
      simp only [pushDown, Option.some.injEq] at h
      exact trivialCase h.symm
    | branch d s ch =>
      rw [pushDown] at h
      -- the facts needed for the recursive call on a child
      have childFacts : ∀ k ck, lookupChild ch k = some ck →
          TInv E c root ck ∧ ck.data.comb.length = 1 ∧ ck.allRows.Nodup ∧ (rootIv ck).lo ≤ (rootIv ck).hi := by
        intro k ck hck
        have hm := lookupChild_mem hck
        cases hT with
        | branch _ _ _ _ hN hB hC =>
          obtain ⟨kc, _, _, ks⟩ := hB.child _ hm
          simp only at kc ks
          refine ⟨hC _ hm, by rw [kc]; exact h1, ?_, ?_⟩
          · rw [Node.allRows_branch] at hnd
            exact (List.nodup_flatten.mp hnd).1 _ (List.mem_map.mpr ⟨_, hm, rfl⟩)
          · unfold rootIv
            rw [ks, one_dim_child_range d hN.lenS h1 k]
            exact (half_nested _ hord _).2
      split at h
      · -- child 0 stays, the rows of child 1 are folded
        rename_i _ _ _ _ rs c0 hl0 hl1 hc0
        simp only [Option.bind_eq_some_iff] at h
        obtain ⟨t1, hpd, hf⟩ := h
        obtain ⟨hTc, h1c, hndc, hordc⟩ := childFacts 0 c0 hc0
        obtain ⟨out1, hT1, hp1, hc1, hn1, ho1, hout1⟩ := IH c0 t1 hTc h1c hndc hordc hpd
        rw [lowRows_some hl1] at hf
        exact pushDown_step E c root d s ch 0 (by omega) c0 t1 t' out1 100000 hT h1 hnd hord hc0 hT1 hp1 hc1 hn1 ho1
          (fun r hr => by have := hout1 r hr; exact this) hf
      · rename_i _ _ _ _ ls c1 hl0 hl1 hc1'
        simp only [Option.bind_eq_some_iff] at h
        obtain ⟨t1, hpd, hf⟩ := h
        obtain ⟨hTc, h1c, hndc, hordc⟩ := childFacts 1 c1 hc1'
        obtain ⟨out1, hT1, hp1, hc1, hn1, ho1, hout1⟩ := IH c1 t1 hTc h1c hndc hordc hpd
        rw [lowRows_some hl0] at hf
        exact pushDown_step E c root d s ch 1 (by omega) c1 t1 t' out1 100000 hT h1 hnd hord hc1' hT1 hp1 hc1 hn1 ho1
          (fun r hr => by have := hout1 r hr; exact this) hf
      · simp only [Option.some.injEq] at h
        exact trivialCase h.symm


/-- every node of a pushed-down tree satisfies the invariant (with the same exempt set) -/
theorem TInvO.sub {E : Env α} {c : FCtx α} {root : List (Ival α)} {out : List Nat} {n t : Node α} (hs : Node.Sub n t)
    (hT : TInvO E c root out t) : TInvO E c root out n := by
  induction hs with
  | refl => exact hT
  | child d s ch p hp _ ih =>
    cases hT with
    | branch _ _ _ _ _ hC => exact ih (hC p hp)


theorem TInvO.shape {E : Env α} {c : FCtx α} {root : List (Ival α)} {out : List Nat} {t : Node α} (h : TInvO E c root out t) :
    Shape t := by
  induction h with
  | leaf d subs rows hN => exact Shape.leaf _ _ _ ⟨hN.lenS, hN.lenA, hN.subsOK.2.2⟩ hN.subsOK.1 hN.subsOK.2.1
  | branch d subs ch hN hB hC ih =>
    exact Shape.branch _ _ _ ⟨hN.lenS, hN.lenA, hN.subsOK.2.2⟩ hN.subsOK.1 hN.subsOK.2.1 hB.keys
      (fun p hp => ⟨(hB.child p hp).1, (hB.child p hp).2.1, (hB.child p hp).2.2.2⟩) ih

end
