import SdxProofs.TreeInduction
set_option linter.unusedSectionVars false
set_option linter.unusedVariables false
/-!
# Position independence of trees

`Node.relabel ρ` renames the column ids stored in a tree (and in its sub-nodes). If two tables agree on the columns
of a tree up to the renaming `ρ` — same values in those columns, same entity ids, same parameters — then inserting a
row into the renamed tree over the second table gives the renamed result of inserting it over the first.
-/

variable {α : Type}

def NodeData.relabel (ρ : Nat → Nat) (d : NodeData α) : NodeData α := { d with comb := d.comb.map ρ }

theorem sizeOf_sub_lt (d : NodeData α) (subs : List (Option (Node α))) (n : Node α) (h : some n ∈ subs) :
    sizeOf n < 1 + sizeOf d + sizeOf subs := by
  have h1 : sizeOf (some n) < sizeOf subs := List.sizeOf_lt_of_mem h
  have h2 : sizeOf (some n) = 1 + sizeOf n := rfl
  omega

/-- rename the column ids of a tree and of all its sub-nodes -/
def Node.relabel (ρ : Nat → Nat) : Node α → Node α
  | .leaf d subs rows =>
      .leaf (d.relabel ρ) (subs.attach.map (fun s => match s with
        | ⟨none, _⟩ => none
        | ⟨some n, _⟩ => some (Node.relabel ρ n))) rows
  | .branch d subs ch =>
      .branch (d.relabel ρ) (subs.attach.map (fun s => match s with
        | ⟨none, _⟩ => none
        | ⟨some n, _⟩ => some (Node.relabel ρ n))) (ch.attach.map (fun p => (p.1.1, Node.relabel ρ p.1.2)))
termination_by n => sizeOf n
decreasing_by
  all_goals simp_wf
  · rename_i h; have := sizeOf_sub_lt d subs n h; omega
  · rename_i h; have := sizeOf_sub_lt d subs n h; omega
  · have h1 : sizeOf p.1 < sizeOf ch := List.sizeOf_lt_of_mem p.2
    have h2 : sizeOf p.1.2 < sizeOf p.1 := by
      obtain ⟨⟨a, b⟩, _⟩ := p
      simp only [Prod.mk.sizeOf_spec]; omega
    omega

theorem attach_map_sub (ρ : Nat → Nat) (subs : List (Option (Node α))) :
    (subs.attach.map (fun s => match s with
        | ⟨none, _⟩ => none
        | ⟨some n, _⟩ => some (Node.relabel ρ n))) = subs.map (Option.map (Node.relabel ρ)) := by
  have : (fun (s : { x // x ∈ subs }) => match s with
        | ⟨none, _⟩ => none
        | ⟨some n, _⟩ => some (Node.relabel ρ n)) = fun s => Option.map (Node.relabel ρ) s.1 := by
    funext s
    obtain ⟨s, hs⟩ := s
    cases s <;> rfl
  rw [this]
  exact List.attach_map_val (l := subs) (f := Option.map (Node.relabel ρ))

theorem Node.relabel_leaf (ρ : Nat → Nat) (d : NodeData α) (subs : List (Option (Node α))) (rows : List Nat) :
    Node.relabel ρ (.leaf d subs rows) = .leaf (d.relabel ρ) (subs.map (Option.map (Node.relabel ρ))) rows := by
  rw [Node.relabel, attach_map_sub]

theorem Node.relabel_branch (ρ : Nat → Nat) (d : NodeData α) (subs : List (Option (Node α))) (ch : List (Nat × Node α)) :
    Node.relabel ρ (.branch d subs ch) =
      .branch (d.relabel ρ) (subs.map (Option.map (Node.relabel ρ))) (ch.map (fun p => (p.1, Node.relabel ρ p.2))) := by
  rw [Node.relabel, attach_map_sub]
  congr 1
  exact List.attach_map_val (l := ch) (f := fun p => (p.1, Node.relabel ρ p.2))

theorem Node.relabel_data (ρ : Nat → Nat) (n : Node α) : (Node.relabel ρ n).data = n.data.relabel ρ := by
  cases n with
  | leaf d s r => rw [Node.relabel_leaf]; rfl
  | branch d s ch => rw [Node.relabel_branch]; rfl

section
variable {α : Type} [Add α] [Sub α] [Mul α] [Div α] [LT α] [LE α] [BEq α]
  [DecidableLT α] [DecidableLE α] [ScalarOps α] [Inhabited α]

/-- the two tables agree on the columns `S` up to the renaming `ρ`; everything else about the contexts is equal -/
structure Agree (c c' : FCtx α) (ρ : Nat → Nat) (S : List Nat) : Prop where
  pids : c'.pids = c.pids
  ap : c'.ap = c.ap
  bp : c'.bp = c.bp
  kind : c'.kind = c.kind
  size : c'.data.size = c.data.size
  vals : ∀ row, ∀ j ∈ S, c'.value row (ρ j) = c.value row j

variable {c c' : FCtx α} {ρ : Nat → Nat} {S : List Nat}

theorem Agree.vals_comb (h : Agree c c' ρ S) (comb : List Nat) (hc : ∀ j ∈ comb, j ∈ S) (row : Nat) :
    c'.vals (comb.map ρ) row = c.vals comb row := by
  simp only [FCtx.vals, List.map_map]
  apply List.map_congr_left
  intro j hj
  exact h.vals row j (hc j hj)

theorem Agree.pidRow (h : Agree c c' ρ S) (row : Nat) : c'.pidRow row = c.pidRow row := by
  simp [FCtx.pidRow, h.pids]

theorem relabel_isSing (n : Node α) : (Node.relabel ρ n).isSing = n.isSing := by
  simp [Node.isSing, Node.relabel_data, NodeData.relabel]

theorem relabel_overThreshold (E : Env α) (h : Agree c c' ρ S) (n : Node α) (th : Int) :
    (Node.relabel ρ n).overThreshold E c' th = n.overThreshold E c th := by
  simp [Node.overThreshold, Node.relabel_data, NodeData.relabel, h.ap]

theorem relabel_isStubSubnode (E : Env α) (h : Agree c c' ρ S) (n : Node α) :
    (Node.relabel ρ n).isStubSubnode E c' = n.isStubSubnode E c := by
  simp only [Node.isStubSubnode, relabel_isSing, relabel_overThreshold E h, h.bp, Node.relabel_data, NodeData.relabel]

theorem relabel_stubFlag (E : Env α) (h : Agree c c' ρ S) (subs : List (Option (Node α))) :
    stubFlag E c' (subs.map (Option.map (Node.relabel ρ))) = stubFlag E c subs := by
  unfold stubFlag
  congr 1
  · simp
  · rw [List.all_map]
    congr 1
    funext s
    cases s with
    | none => rfl
    | some n => simp [relabel_isStubSubnode E h]

theorem relabel_updData (h : Agree c c' ρ S) (d : NodeData α) (hc : ∀ j ∈ d.comb, j ∈ S) (row : Nat) :
    updData c' (d.relabel ρ) row = (updData c d row).relabel ρ := by
  simp only [updData, NodeData.relabel, h.pidRow, h.vals_comb d.comb hc]

theorem relabel_mkLeaf (E : Env α) (h : Agree c c' ρ S) (comb path : List Nat) (hc : ∀ j ∈ comb, j ∈ S) (seed : UInt64)
    (subs : List (Option (Node α))) (snapped : List (Ival α)) (row : Nat) :
    mkLeaf E c' (comb.map ρ) path seed (subs.map (Option.map (Node.relabel ρ))) snapped row =
      Node.relabel ρ (mkLeaf E c comb path seed subs snapped row) := by
  simp only [mkLeaf, Node.relabel_leaf, NodeData.relabel, h.vals_comb comb hc, relabel_stubFlag E h, h.kind, h.pidRow]

theorem relabel_lookupChild (ch : List (Nat × Node α)) (k : Nat) :
    lookupChild (ch.map (fun p => (p.1, Node.relabel ρ p.2))) k = (lookupChild ch k).map (Node.relabel ρ) := by
  unfold lookupChild
  induction ch with
  | nil => rfl
  | cons a rest ih =>
    simp only [List.map_cons, List.find?_cons]
    by_cases ha : (a.1 == k) = true
    · simp [ha]
    · simp only [ha]; exact ih

theorem relabel_childOfSub (s : Option (Node α)) (k : Nat) :
    childOfSub (s.map (Node.relabel ρ)) k = (childOfSub s k).map (Node.relabel ρ) := by
  cases s with
  | none => rfl
  | some n =>
    cases n with
    | leaf d ss rows => simp [childOfSub, Node.relabel_leaf]
    | branch d ss ch => simp [childOfSub, Node.relabel_branch, relabel_lookupChild]

theorem relabel_createChild (E : Env α) (h : Agree c c' ρ S) (d : NodeData α) (hc : ∀ j ∈ d.comb, j ∈ S)
    (subs : List (Option (Node α))) (idx row : Nat) :
    createChild E c' (d.relabel ρ) (subs.map (Option.map (Node.relabel ρ))) idx row =
      Node.relabel ρ (createChild E c d subs idx row) := by
  unfold createChild
  simp only [NodeData.relabel, List.length_map]
  rw [← relabel_mkLeaf E h d.comb _ hc]
  congr 1
  rw [List.map_map]
  apply List.ext_getElem?
  intro i
  simp only [List.getElem?_map]
  by_cases hi : i < subs.length
  · simp [hi, relabel_childOfSub]
  · simp [hi]

theorem relabel_shouldSplit (E : Env α) (h : Agree c c' ρ S) (rl : Int) (depth : Nat) (n : Node α) (k : Nat) :
    shouldSplit E c' rl depth (Node.relabel ρ n) k = shouldSplit E c rl depth n k := by
  simp only [shouldSplit, relabel_isSing, relabel_overThreshold E h, Node.relabel_data, NodeData.relabel, h.bp, h.ap]

end

section
variable {α : Type} [Add α] [Sub α] [Mul α] [Div α] [LT α] [LE α] [BEq α]
  [DecidableLT α] [DecidableLE α] [ScalarOps α] [Inhabited α]

/-- every node of the tree (children, not sub-nodes) is over columns in `S` -/
inductive CombIn (S : List Nat) : Node α → Prop
  | leaf (d : NodeData α) (s : List (Option (Node α))) (r : List Nat) : (∀ j ∈ d.comb, j ∈ S) → CombIn S (.leaf d s r)
  | branch (d : NodeData α) (s : List (Option (Node α))) (ch : List (Nat × Node α)) :
      (∀ j ∈ d.comb, j ∈ S) → (∀ p ∈ ch, CombIn S p.2) → CombIn S (.branch d s ch)

variable {c c' : FCtx α} {ρ : Nat → Nat} {S : List Nat}

theorem find?_map_relabel (ch : List (Nat × Node α)) (k : Nat) :
    (ch.map (fun p => (p.1, Node.relabel ρ p.2))).find? (fun p => p.1 == k) =
      (ch.find? (fun p => p.1 == k)).map (fun p => (p.1, Node.relabel ρ p.2)) := by
  induction ch with
  | nil => rfl
  | cons a rest ih =>
    simp only [List.map_cons, List.find?_cons]
    by_cases ha : (a.1 == k) = true
    · simp [ha]
    · simp only [ha]; exact ih

/-- the data of the branch a leaf turns into -/
def splitData (E : Env α) (c : FCtx α) (d : NodeData α) (subs : List (Option (Node α))) (row : Nat) : NodeData α :=
  { updData c d row with counter := c.kind.newEntity, isStub := stubFlag E c subs }

theorem relabel_splitData (E : Env α) (h : Agree c c' ρ S) (d : NodeData α) (hc : ∀ j ∈ d.comb, j ∈ S)
    (subs : List (Option (Node α))) (row : Nat) :
    splitData E c' (d.relabel ρ) (subs.map (Option.map (Node.relabel ρ))) row = (splitData E c d subs row).relabel ρ := by
  unfold splitData
  rw [relabel_updData h d hc, relabel_stubFlag E h, h.kind]
  rfl

/-- `add_row` commutes with renaming the columns, over tables that agree on the tree's columns -/
theorem addRow_relabel (E : Env α) (h : Agree c c' ρ S) (rl : Int) :
    ∀ (fuel depth : Nat) (t : Node α) (row : Nat), CombIn S t →
      addRow E c' rl fuel depth (Node.relabel ρ t) row = (addRow E c rl fuel depth t row).map (Node.relabel ρ) ∧
      ∀ t', addRow E c rl fuel depth t row = some t' → CombIn S t' := by
  intro fuel
  induction fuel with
  | zero => intro depth t row _; simp [addRow]
  | succ fuel IH =>
    intro depth t row hT
    have fold : ∀ (l : List Nat) (t : Node α), CombIn S t →
        l.foldlM (fun b r => addRow E c' rl fuel depth b r) (Node.relabel ρ t) =
          (l.foldlM (fun b r => addRow E c rl fuel depth b r) t).map (Node.relabel ρ) ∧
        ∀ t', l.foldlM (fun b r => addRow E c rl fuel depth b r) t = some t' → CombIn S t' := by
      intro l
      induction l with
      | nil => intro t hT; simp [hT]
      | cons r l ihl =>
        intro t hT
        obtain ⟨e1, e2⟩ := IH depth t r hT
        simp only [List.foldlM_cons, Option.bind_eq_bind]
        rw [e1]
        cases ht1 : addRow E c rl fuel depth t r with
        | none => simp
        | some t1 =>
          simp only [Option.map_some, Option.bind_some]
          exact ihl t1 (e2 t1 ht1)
    cases hT with
    | leaf d subs rows hc =>
      have e0 : ∀ rs, Node.leaf (updData c' (d.relabel ρ) row) (subs.map (Option.map (Node.relabel ρ))) rs =
          Node.relabel ρ (.leaf (updData c d row) subs rs) := by
        intro rs; rw [Node.relabel_leaf, relabel_updData h d hc]
      rw [Node.relabel_leaf, addRow, addRow, e0, relabel_shouldSplit E h]
      by_cases hs : shouldSplit E c rl depth (.leaf (updData c d row) subs (rows ++ [row])) (rows ++ [row]).length = true
      · rw [if_pos hs, if_pos hs]
        show List.foldlM (fun b r => addRow E c' rl fuel depth b r)
            (Node.branch (splitData E c' (d.relabel ρ) (subs.map (Option.map (Node.relabel ρ))) row)
              (subs.map (Option.map (Node.relabel ρ))) []) (rows ++ [row]) =
            Option.map (Node.relabel ρ) (List.foldlM (fun b r => addRow E c rl fuel depth b r)
              (Node.branch (splitData E c d subs row) subs []) (rows ++ [row])) ∧ _
        have eb : Node.branch (splitData E c' (d.relabel ρ) (subs.map (Option.map (Node.relabel ρ))) row)
            (subs.map (Option.map (Node.relabel ρ))) [] = Node.relabel ρ (.branch (splitData E c d subs row) subs []) := by
          rw [Node.relabel_branch, relabel_splitData E h d hc]; rfl
        rw [eb]
        exact fold _ _ (CombIn.branch _ _ _ hc (fun p hp => by simp at hp))
      · rw [if_neg hs, if_neg hs]
        exact ⟨rfl, fun t' ht' => by simp only [Option.some.injEq] at ht'; subst ht'; exact CombIn.leaf _ _ _ hc⟩
    | branch d subs ch hc hC =>
      rw [Node.relabel_branch, addRow, addRow]
      have ev : c'.vals (d.relabel ρ).comb row = c.vals d.comb row := h.vals_comb d.comb hc row
      simp only [ev]
      have esn : (d.relabel ρ).snapped = d.snapped := rfl
      rw [esn, find?_map_relabel]
      cases hf : ch.find? (fun p => p.1 == childIndex d.snapped (c.vals d.comb row)) with
      | none =>
        simp only [Option.map_none, Option.map_some]
        refine ⟨?_, ?_⟩
        · rw [Node.relabel_branch, relabel_updData h d hc, List.map_append, List.map_cons, List.map_nil,
            relabel_createChild E h d hc]
        · intro t' ht'
          simp only [Option.some.injEq] at ht'
          subst ht'
          refine CombIn.branch _ _ _ hc ?_
          intro p hp
          rcases List.mem_append.mp hp with hp | hp
          · exact hC p hp
          · rw [List.mem_singleton.mp hp]
            unfold createChild mkLeaf
            exact CombIn.leaf _ _ _ hc
      | some q0 =>
        simp only [Option.map_some]
        -- the children list, mapped
        have key : ∀ (l : List (Nat × Node α)), (∀ p ∈ l, CombIn S p.2) →
            (l.map (fun p => (p.1, Node.relabel ρ p.2))).mapM (fun p => if p.1 == childIndex d.snapped (c.vals d.comb row)
              then (addRow E c' rl fuel (depth + 1) p.2 row).map (fun n => (p.1, n)) else some p) =
            (l.mapM (fun p => if p.1 == childIndex d.snapped (c.vals d.comb row)
              then (addRow E c rl fuel (depth + 1) p.2 row).map (fun n => (p.1, n)) else some p)).map
                (fun l' => l'.map (fun p => (p.1, Node.relabel ρ p.2))) ∧
            ∀ l', l.mapM (fun p => if p.1 == childIndex d.snapped (c.vals d.comb row)
              then (addRow E c rl fuel (depth + 1) p.2 row).map (fun n => (p.1, n)) else some p) = some l' →
              ∀ p ∈ l', CombIn S p.2 := by
          intro l
          induction l with
          | nil => intro _; simp
          | cons a rest ih =>
            intro hall
            obtain ⟨i1, i2⟩ := ih (fun p hp => hall p (by simp [hp]))
            obtain ⟨e1, e2⟩ := IH (depth + 1) a.2 row (hall a (by simp))
            simp only [List.map_cons, List.mapM_cons, Option.bind_eq_bind, Option.pure_def]
            by_cases ha : (a.1 == childIndex d.snapped (c.vals d.comb row)) = true
            · simp only [ha, if_true]
              rw [e1, i1]
              cases h1 : addRow E c rl fuel (depth + 1) a.2 row with
              | none => simp
              | some n' =>
                cases h2 : rest.mapM (fun p => if p.1 == childIndex d.snapped (c.vals d.comb row)
                    then (addRow E c rl fuel (depth + 1) p.2 row).map (fun n => (p.1, n)) else some p) with
                | none => simp
                | some r' =>
                  simp only [Option.map_some, Option.bind_some, List.map_cons, Option.some.injEq, true_and]
                  intro l' hl' p hp
                  subst hl'
                  rcases List.mem_cons.mp hp with rfl | hp
                  · exact e2 n' h1
                  · exact i2 r' h2 p hp
            · simp only [ha, Bool.false_eq_true, if_false, Option.bind_some]
              rw [i1]
              cases h2 : rest.mapM (fun p => if p.1 == childIndex d.snapped (c.vals d.comb row)
                  then (addRow E c rl fuel (depth + 1) p.2 row).map (fun n => (p.1, n)) else some p) with
              | none => simp
              | some r' =>
                simp only [Option.map_some, Option.bind_some, List.map_cons, Option.some.injEq, true_and]
                intro l' hl' p hp
                subst hl'
                rcases List.mem_cons.mp hp with rfl | hp
                · exact hall _ (by simp)
                · exact i2 r' h2 p hp
        obtain ⟨k1, k2⟩ := key ch hC
        rw [k1]
        cases hm : ch.mapM (fun p => if p.1 == childIndex d.snapped (c.vals d.comb row)
            then (addRow E c rl fuel (depth + 1) p.2 row).map (fun n => (p.1, n)) else some p) with
        | none => simp
        | some ch' =>
          simp only [Option.map_some, Option.some.injEq]
          refine ⟨?_, ?_⟩
          · rw [Node.relabel_branch, relabel_updData h d hc]
          · intro t' ht'
            subst ht'
            exact CombIn.branch _ _ _ hc (k2 ch' hm)

end

section
variable {α : Type} [Add α] [Sub α] [Mul α] [Div α] [LT α] [LE α] [BEq α]
  [DecidableLT α] [DecidableLE α] [ScalarOps α] [Inhabited α]
variable {c c' : FCtx α} {ρ : Nat → Nat} {S : List Nat}

/-- building a whole tree commutes with renaming the columns -/
theorem buildRows_relabel (E : Env α) (h : Agree c c' ρ S) (rl : Int) (comb : List Nat) (hc : ∀ j ∈ comb, j ∈ S)
    (seed : UInt64) (subs : List (Option (Node α))) (snapped : List (Ival α)) :
    buildRows E c' rl (mkLeaf E c' (comb.map ρ) [] seed (subs.map (Option.map (Node.relabel ρ))) snapped 0) =
      (buildRows E c rl (mkLeaf E c comb [] seed subs snapped 0)).map (Node.relabel ρ) := by
  unfold buildRows
  rw [relabel_mkLeaf E h comb [] hc, h.size]
  have fold : ∀ (l : List Nat) (t : Node α), CombIn S t →
      l.foldlM (fun t i => addRow E c' rl 4000 0 t (i + 1)) (Node.relabel ρ t) =
        (l.foldlM (fun t i => addRow E c rl 4000 0 t (i + 1)) t).map (Node.relabel ρ) := by
    intro l
    induction l with
    | nil => intro t _; simp
    | cons r l ih =>
      intro t hT
      obtain ⟨e1, e2⟩ := addRow_relabel E h rl 4000 0 t (r + 1) hT
      simp only [List.foldlM_cons, Option.bind_eq_bind]
      rw [e1]
      cases ht1 : addRow E c rl 4000 0 t (r + 1) with
      | none => simp
      | some t1 =>
        simp only [Option.map_some, Option.bind_some]
        exact ih t1 (e2 t1 ht1)
  exact fold _ _ (by unfold mkLeaf; exact CombIn.leaf _ _ _ hc)

end

section
variable {α : Type} [Add α] [Sub α] [Mul α] [Div α] [LT α] [LE α] [BEq α]
  [DecidableLT α] [DecidableLE α] [ScalarOps α] [Inhabited α]
variable {c c' : FCtx α} {ρ : Nat → Nat} {S : List Nat}

theorem relabel_matchingRows : ∀ (fuel : Nat) (n : Node α), (Node.relabel ρ n).matchingRows fuel = n.matchingRows fuel := by
  intro fuel
  induction fuel with
  | zero => intro n; simp [Node.matchingRows]
  | succ fuel ih =>
    intro n
    cases n with
    | leaf d s rows => rw [Node.relabel_leaf]; simp [Node.matchingRows]
    | branch d s ch =>
      rw [Node.relabel_branch]
      simp only [Node.matchingRows, List.map_map]
      congr 1
      apply List.map_congr_left
      intro p _
      exact ih p.2

/-- the released count of a node does not depend on where its columns sit -/
theorem relabel_noisyCount (E : Env α) (h : Agree c c' ρ S) (n : Node α) :
    (Node.relabel ρ n).noisyCount E c' = n.noisyCount E c := by
  unfold Node.noisyCount
  simp only [relabel_matchingRows, Node.relabel_data, NodeData.relabel, h.ap, h.kind]
  have e1 : (Node.relabel ρ n).bucketIntervals = n.bucketIntervals := by
    simp [Node.bucketIntervals, Node.relabel_data, NodeData.relabel]
  have e2 : (n.matchingRows 100000).map c'.pidRow = (n.matchingRows 100000).map c.pidRow := by
    apply List.map_congr_left; intro r _; exact h.pidRow r
  rw [e1, e2]

end
