import SdxProofs.IntervalLemmas
set_option linter.unusedSectionVars false
/-! The snapping proof: one step, then at most one re-snap. -/

section
variable {α : Type} [Field α] [LinearOrder α] [IsStrictOrderedRing α] [FloorRing α]

/-- the size used by one snapping step -/
noncomputable def snapSize (i : Ival α) : α := if 0 < i.hi - i.lo then (2 : α) ^ Int.clog 2 (i.hi - i.lo) else 1

theorem snapStep_eq (i : Ival α) :
    snapStep i =
      if floorBy i.lo (snapSize i / 2) + snapSize i < i.hi then .inl ⟨floorBy i.lo (snapSize i / 2), i.hi⟩
      else .inr ⟨floorBy i.lo (snapSize i / 2), floorBy i.lo (snapSize i / 2) + snapSize i⟩ := by
  simp [snapStep, snapSize, Ival.size]

theorem snapSize_pos (i : Ival α) : 0 < snapSize i := by
  unfold snapSize; split_ifs
  · exact zpow_pos (by norm_num) _
  · norm_num

/-- `floorBy v (2^k/2)` is an integer multiple of `2^k/2`. -/
theorem floorBy_multiple (v a : α) : ∃ n : ℤ, floorBy v a = n * a := ⟨⌊v / a⌋, by simp [floorBy]⟩

/-- flooring a multiple `n·(P/2)` by `P` yields `n·(P/2)` or `(n-1)·(P/2)`. -/
theorem floorBy_half_multiple (n : ℤ) {P : α} (hP : 0 < P) :
    ∃ m : ℤ, floorBy ((n : α) * (P / 2)) P = m * P ∧
      (n : α) * (P / 2) - P / 2 ≤ m * P ∧ (m : α) * P ≤ n * (P / 2) := by
  refine ⟨⌊(n : α) * (P / 2) / P⌋, by simp [floorBy], ?_, ?_⟩
  · have h := lt_floorBy_add ((n : α) * (P / 2)) hP
    simp only [floorBy, sfloor_eq] at h
    have hm : ∃ m : ℤ, (n : α) * (P / 2) / P = m / 2 := ⟨n, by field_simp⟩
    obtain ⟨_, _⟩ := hm
    -- n/2 has floor ≥ (n-1)/2
    have h2 : (n : α) * (P / 2) / P = (n : α) / 2 := by field_simp
    rw [h2] at h ⊢
    have hfl : ((n : α) - 1) / 2 ≤ ((⌊(n : α) / 2⌋ : ℤ) : α) := by
      have : (n - 1 : ℤ) ≤ 2 * ⌊(n : α) / 2⌋ := by
        have hlt : (n : α) / 2 < ⌊(n : α) / 2⌋ + 1 := Int.lt_floor_add_one _
        have : (n : α) < 2 * ⌊(n : α) / 2⌋ + 2 := by linarith
        have : (n : ℤ) < 2 * ⌊(n : α) / 2⌋ + 2 := by exact_mod_cast this
        omega
      have : ((n - 1 : ℤ) : α) ≤ ((2 * ⌊(n : α) / 2⌋ : ℤ) : α) := by exact_mod_cast this
      push_cast at this; linarith
    calc (n : α) * (P / 2) - P / 2 = ((n : α) - 1) / 2 * P := by ring
      _ ≤ _ := by gcongr
  · have := floorBy_le ((n : α) * (P / 2)) hP
    simpa [floorBy] using this

end
