import Mathlib.Data.List.Basic
import Mathlib.Data.List.Nodup
import Mathlib.Data.Nat.Init
import Mathlib.Tactic.Linarith
/-! Facts about `List.eraseDups` used for request validation. -/

theorem eraseDups_length_le : ∀ l : List String, l.eraseDups.length ≤ l.length := by
  intro l
  induction hl : l.length using Nat.strong_induction_on generalizing l with
  | _ n ih =>
    cases l with
    | nil => simp
    | cons x xs =>
      rw [List.eraseDups_cons]
      simp only [List.length_cons] at hl ⊢
      have h2 := List.length_filter_le (fun b => !b == x) xs
      have h1 := ih (List.filter (fun b => !b == x) xs).length (by omega) _ rfl
      omega

theorem nodup_of_eraseDups_length_eq : ∀ l : List String, l.eraseDups.length = l.length → l.Nodup := by
  intro l
  induction hl : l.length using Nat.strong_induction_on generalizing l with
  | _ n ih =>
    cases l with
    | nil => intro _; exact List.nodup_nil
    | cons a as =>
      intro he
      rw [List.eraseDups_cons] at he
      simp only [List.length_cons] at he hl
      have hle := eraseDups_length_le (List.filter (fun b => !b == a) as)
      have hfl := List.length_filter_le (fun b => !b == a) as
      have hfe : (List.filter (fun b => !b == a) as).length = as.length := by omega
      have hall : ∀ b ∈ as, (!b == a) = true := List.length_filter_eq_length_iff.mp hfe
      have hfilter : List.filter (fun b => !b == a) as = as := List.filter_eq_self.mpr hall
      rw [hfilter] at he
      refine List.nodup_cons.mpr ⟨?_, ih as.length (by omega) as rfl (by omega)⟩
      intro hmem
      have := hall a hmem
      simp at this
