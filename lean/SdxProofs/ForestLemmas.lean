import SdxProofs.PushDown
import SdxProofs.IntervalLemmas
set_option linter.unusedSectionVars false
set_option linter.unusedVariables false
/-! `Forest.__init__` and `Forest.get_tree` produce trees that satisfy the invariants. -/

theorem mapM_except_ok {ε β γ : Type} (f : β → Except ε γ) :
    ∀ (l : List β) (r : List γ), l.mapM f = .ok r → List.Forall₂ (fun a b => f a = .ok b) l r := by
  intro l
  induction l with
  | nil => intro r h; simp [pure, Except.pure] at h; subst h; exact List.Forall₂.nil
  | cons a l ih =>
    intro r h
    rw [List.mapM_cons] at h
    cases hfa : f a with
    | error e => simp [hfa, bind, Except.bind] at h
    | ok b =>
      cases hl : l.mapM f with
      | error e => simp [hfa, hl, bind, Except.bind] at h
      | ok bs =>
        simp [hfa, hl, bind, Except.bind, pure, Except.pure] at h
        subst h
        exact List.Forall₂.cons hfa (ih bs hl)

theorem forall₂_right' {β γ : Type} (Q : γ → Prop) (l : List β) (r : List γ) (h : List.Forall₂ (fun _ y => Q y) l r) :
    ∀ y ∈ r, Q y := by
  induction h with
  | nil => simp
  | cons h1 _ ih => intro y hy; rcases List.mem_cons.mp hy with rfl | hy; exact h1; exact ih y hy

section
variable {α : Type} [Field α] [LinearOrder α] [IsStrictOrderedRing α] [FloorRing α] [Inhabited α]

/-- whatever `snap_interval` returns is a proper range -/
theorem snapFuel_proper : ∀ (n : Nat) (i s : Ival α), snapFuel n i = some s → s.lo < s.hi := by
  intro n
  induction n with
  | zero => intro i s h; simp [snapFuel] at h
  | succ n ih =>
    intro i s h
    rw [snapFuel] at h
    split at h
    · exact ih _ _ h
    · rename_i r hr
      simp only [Option.some.injEq] at h
      subst h
      unfold snapStep at hr
      simp only at hr
      split_ifs at hr with h1 h2
      · simp only [Sum.inr.injEq] at hr
        subst hr
        simp only [lt_add_iff_pos_right]
        exact nextPow2_pos _
      · simp only [Sum.inr.injEq] at hr
        subst hr
        simp

/-- the trees `Forest.__init__` keeps for single columns -/
theorem forest_init_trees1 (E : Env α) (inp : ForestIn α) (F : Forest α) (h : Forest.init E inp = .ok F) :
    F.trees1.length = inp.names.length ∧ F.rootSnapped0.length = inp.names.length ∧
    (∀ iv ∈ F.rootSnapped0, iv.lo < iv.hi) ∧ F.ctx.data.size = inp.raw.size ∧
    F.snapped = F.trees1.map (fun t => t.data.snapped.getD 0 default) ∧
    ∀ j (hj : j < F.trees1.length),
      tree1 E F.ctx inp.names inp.bp.rowFraction F.rootSnapped0 j = some (F.trees1[j]) := by
  unfold Forest.init at h
  simp only [bind, Except.bind] at h
  split at h
  · cases h
  · rename_i snapped0 hs0
    split at h
    · cases h
    · rename_i trees1 ht1
      simp only [pure, Except.pure, Except.ok.injEq] at h
      subst h
      have f1 := mapM_except_ok _ _ _ ht1
      have f0 := mapM_except_ok _ _ _ hs0
      have hl1 : trees1.length = inp.names.length := by rw [← f1.length_eq]; simp
      refine ⟨hl1, ?_, ?_, by simp [forestData], rfl, ?_⟩
      · rw [← f0.length_eq]; simp
      · have f0' := f0.imp (S := fun (_ : Ival α) (y : Ival α) => y.lo < y.hi) (by
          intro x y hx
          split at hx
          · rename_i s hs
            simp only [pure, Except.pure, Except.ok.injEq] at hx
            rw [← hx]; exact snapFuel_proper _ _ _ hs
          · cases hx)
        exact forall₂_right' _ _ _ f0'
      · intro j hj
        have hj' : j < (List.range inp.names.length).length := by simpa [hl1] using hj
        have := List.forall₂_iff_get.mp f1 |>.2 j hj' hj
        simp only [List.get_eq_getElem, List.getElem_range] at this
        split at this
        · rename_i t ht
          simp only [pure, Except.pure, Except.ok.injEq] at this
          rw [← this]; exact ht
        · cases this

end

theorem mapM_option_some {β γ : Type} (f : β → Option γ) :
    ∀ (l : List β) (r : List γ), l.mapM f = some r → List.Forall₂ (fun a b => f a = some b) l r := by
  intro l
  induction l with
  | nil => intro r h; simp at h; subst h; exact List.Forall₂.nil
  | cons a l ih =>
    intro r h
    rw [List.mapM_cons] at h
    simp only [Option.bind_eq_bind, Option.pure_def, Option.bind_eq_some_iff, Option.some.injEq] at h
    obtain ⟨b, hb, bs, hbs, rfl⟩ := h
    exact List.Forall₂.cons hb (ih bs hbs)

theorem combos_gt : ∀ (l : List Nat) (k : Nat), l.length < k → combos k l = [] := by
  intro l
  induction l with
  | nil => intro k hk; cases k with | zero => simp at hk | succ k => rfl
  | cons x xs ih =>
    intro k hk
    cases k with
    | zero => simp at hk
    | succ k =>
      simp only [List.length_cons] at hk
      simp [combos, ih k (by omega), ih (k + 1) (by omega)]

theorem combos_all : ∀ (l : List Nat), combos l.length l = [l] := by
  intro l
  induction l with
  | nil => rfl
  | cons x xs ih => simp [combos, ih, combos_gt xs (xs.length + 1) (by omega)]

/-- `itertools.combinations(l, len(l)-1)`: drop the last element, then the last but one, …, then the first -/
theorem combos_pred : ∀ (l : List Nat) (n : Nat), l.length = n + 1 →
    combos n l = (List.range (n + 1)).map (fun i => l.eraseIdx (n - i)) := by
  intro l
  induction l with
  | nil => intro n h; simp at h
  | cons x xs ih =>
    intro n h
    simp only [List.length_cons, Nat.add_right_cancel_iff] at h
    cases n with
    | zero =>
      have : xs = [] := List.length_eq_zero_iff.mp h
      subst this
      simp [combos]
    | succ n =>
      rw [combos, ih n h, ← h, combos_all]
      rw [List.range_succ, List.map_append]
      simp only [List.map_map, List.map_cons, List.map_nil, Nat.sub_self, List.eraseIdx_cons_zero]
      congr 1
      apply List.map_congr_left
      intro i hi
      have hi' : i < xs.length := List.mem_range.mp hi
      simp only [Function.comp]
      have : xs.length - i = (n - i) + 1 := by omega
      rw [this, List.eraseIdx_cons_succ]

theorem genCombinations_pred (k : Nat) (hk : 2 ≤ k) :
    genCombinations (k - 1) k = (List.range k).map (fun i => (List.range k).eraseIdx (k - 1 - i)) := by
  unfold genCombinations
  have : ¬ (k - 1 = 0) := by omega
  rw [if_neg this]
  have := combos_pred (List.range k) (k - 1) (by simp; omega)
  rw [this]
  have e : k - 1 + 1 = k := by omega
  rw [e]
