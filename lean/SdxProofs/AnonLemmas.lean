import SdxProofs.Field
import SdxModel.Anonymizer
import SdxModel.Counters
set_option linter.unusedSectionVars false
/-! Helper lemmas for `anonymizer.py`: the low-count rule over an ordered field. -/

section
variable {α : Type} [Field α] [LinearOrder α] [IsStrictOrderedRing α] [FloorRing α]

/-- the seed that keys the suppression noise of an entity set -/
def suppressSeed (E : Env α) (salt : ByteArray) (seed : UInt64) : UInt64 :=
  mixSeed E "suppress" (saltedSeed E salt seed)

theorem generateNoise_one (E : Env α) (salt : ByteArray) (step : String) (sd : α) (l : UInt64) :
    generateNoise E salt step sd [l] = sd * E.z (mixSeed E step (saltedSeed E salt l)) := by
  simp [generateNoise, randomNormal]

theorem generateNoise_two (E : Env α) (salt : ByteArray) (step : String) (sd : α) (l₁ l₂ : UInt64) :
    generateNoise E salt step sd [l₁, l₂] =
      sd * E.z (mixSeed E step (saltedSeed E salt l₁)) + sd * E.z (mixSeed E step (saltedSeed E salt l₂)) := by
  simp [generateNoise, randomNormal]

/-- The per-group decision in closed form. -/
theorem trackerLow_iff (E : Env α) (salt : ByteArray) (p : SuppParams α) (c : Int) (s : UInt64) :
    trackerLow E salt p (c, s) = true ↔
      c < p.lt ∨ (c : α) < p.sd * E.z (suppressSeed E salt s) + (p.gap * p.sd + p.lt) := by
  simp [trackerLow, generateNoise_one, suppressSeed]

theorem randomUniform_range' (iv : FlatInterval) (seed : UInt64) (h : iv.lower ≤ iv.upper) :
    iv.lower ≤ randomUniform iv seed ∧ randomUniform iv seed ≤ iv.upper := by
  unfold randomUniform
  have hpos : (0 : Int) < iv.upper - iv.lower + 1 := by omega
  have h1 := Int.emod_nonneg (seed.toNat : Int) (ne_of_gt hpos)
  have h2 := Int.emod_lt_of_pos (seed.toNat : Int) hpos
  omega

end
