import SdxProofs.ForestLemmas
set_option linter.unusedSectionVars false
set_option linter.unusedVariables false
/-!
# Height of the trees a forest hands out

`add_row` recurses at most as deep as its budget, so every tree built by `Forest` has a height bounded by that budget;
folding outliers in and pushing the root down never make a tree higher. Consequence: the budgeted traversals of the
model (`matchingRows 100000`, …) see the whole tree — `matchingRows` is `allRows`, the rows of the leaves — so the
theorems about a node's released count speak about all the rows the invariant says it holds.
-/

section
variable {α : Type}

/-- the tree has at most `k` levels -/
inductive HeightLE : Node α → Nat → Prop
  | leaf (d : NodeData α) (s : List (Option (Node α))) (rows : List Nat) (k : Nat) : HeightLE (.leaf d s rows) (k + 1)
  | branch (d : NodeData α) (s : List (Option (Node α))) (ch : List (Nat × Node α)) (k : Nat) :
      (∀ p ∈ ch, HeightLE p.2 k) → HeightLE (.branch d s ch) (k + 1)

theorem HeightLE.mono {n : Node α} {k k' : Nat} (h : HeightLE n k) (hk : k ≤ k') : HeightLE n k' := by
  induction h generalizing k' with
  | leaf d s rows k =>
    obtain ⟨j, rfl⟩ : ∃ j, k' = j + 1 := ⟨k' - 1, by omega⟩
    exact HeightLE.leaf d s rows j
  | branch d s ch k _ ih =>
    obtain ⟨j, rfl⟩ : ∃ j, k' = j + 1 := ⟨k' - 1, by omega⟩
    exact HeightLE.branch d s ch j (fun p hp => ih p hp (by omega))

theorem HeightLE.pos {n : Node α} {k : Nat} (h : HeightLE n k) : 1 ≤ k := by
  cases h <;> omega

theorem HeightLE.child {d : NodeData α} {s : List (Option (Node α))} {ch : List (Nat × Node α)} {k : Nat}
    (h : HeightLE (.branch d s ch) (k + 1)) : ∀ p ∈ ch, HeightLE p.2 k := by
  cases h with
  | branch _ _ _ _ hc => exact hc

/-- a traversal whose budget is at least the height returns all rows -/
theorem matchingRows_eq_allRows {n : Node α} {k : Nat} (h : HeightLE n k) :
    ∀ fuel, k ≤ fuel → n.matchingRows fuel = n.allRows := by
  induction h with
  | leaf d s rows k =>
    intro fuel hf
    obtain ⟨f, rfl⟩ : ∃ f, fuel = f + 1 := ⟨fuel - 1, by omega⟩
    simp [Node.matchingRows, Node.allRows_leaf]
  | branch d s ch k _ ih =>
    intro fuel hf
    obtain ⟨f, rfl⟩ : ∃ f, fuel = f + 1 := ⟨fuel - 1, by omega⟩
    rw [Node.matchingRows, Node.allRows_branch]
    congr 1
    apply List.map_congr_left
    intro p hp
    exact ih p hp f (by omega)

/-- replacing some children by trees that are not higher -/
theorem forall₂_height {ch ch' : List (Nat × Node α)} {k : Nat} (h : List.Forall₂ (fun p p' => HeightLE p.2 k → HeightLE p'.2 k) ch ch')
    (hc : ∀ p ∈ ch, HeightLE p.2 k) : ∀ p' ∈ ch', HeightLE p'.2 k := by
  induction h with
  | nil => simp
  | cons h1 _ ih =>
    intro p' hp'
    rcases List.mem_cons.mp hp' with rfl | hp'
    · exact h1 (hc _ (by simp))
    · exact ih (fun p hp => hc p (by simp [hp])) p' hp'

end

section
variable {α : Type} [Field α] [LinearOrder α] [IsStrictOrderedRing α] [FloorRing α] [Inhabited α]

/-- `add_row` with recursion budget `fuel` yields a tree of height at most `max k (fuel + 1)` from one of height `k` -/
theorem addRow_height (E : Env α) (c : FCtx α) (rl : Int) :
    ∀ (fuel depth : Nat) (t : Node α) (row : Nat) (t' : Node α) (k : Nat),
      addRow E c rl fuel depth t row = some t' → HeightLE t k → HeightLE t' (max k (fuel + 1)) := by
  intro fuel
  induction fuel with
  | zero => intro depth t row t' k h; simp [addRow] at h
  | succ fuel IH =>
    intro depth t row t' k h hk
    have fold : ∀ (l : List Nat) (b b' : Node α) (m : Nat), HeightLE b m →
        l.foldlM (fun b r => addRow E c rl fuel depth b r) b = some b' → HeightLE b' (max m (fuel + 1)) := by
      intro l
      induction l with
      | nil =>
        intro b b' m hb h
        simp only [List.foldlM_nil, Option.pure_def, Option.some.injEq] at h
        subst h
        exact hb.mono (by omega)
      | cons r l ihl =>
        intro b b' m hb h
        rw [List.foldlM_cons] at h
        simp only [Option.bind_eq_bind, Option.bind_eq_some_iff] at h
        obtain ⟨b1, h1, h2⟩ := h
        have := ihl b1 b' _ (IH depth b r b1 m h1 hb) h2
        exact this.mono (by omega)
    cases t with
    | leaf d subs rows =>
      rw [addRow] at h
      split_ifs at h with hs
      · have := fold _ _ t' 1 (HeightLE.branch _ subs [] 0 (by simp)) h
        exact this.mono (by omega)
      · simp only [Option.some.injEq] at h
        subst h
        exact (HeightLE.leaf _ _ _ 0).mono (by omega)
    | branch d subs ch =>
      obtain ⟨k0, rfl⟩ : ∃ k0, k = k0 + 1 := ⟨k - 1, by have := hk.pos; omega⟩
      have hc := hk.child
      rw [addRow] at h
      split at h
      · simp only [Option.some.injEq] at h
        subst h
        refine (HeightLE.branch _ subs _ (max k0 1) ?_).mono (by omega)
        intro p hp
        rcases List.mem_append.mp hp with hp | hp
        · exact (hc p hp).mono (by omega)
        · rw [List.mem_singleton.mp hp]
          simp only [createChild, mkLeaf]
          exact (HeightLE.leaf _ _ _ 0).mono (by omega)
      · simp only [Option.map_eq_some_iff] at h
        obtain ⟨ch', hm, rfl⟩ := h
        have hall := mapM_option_some _ _ _ hm
        refine (HeightLE.branch _ subs ch' (max k0 (fuel + 1)) ?_).mono (by omega)
        apply forall₂_height (ch := ch) _ (fun p hp => (hc p hp).mono (by omega))
        refine hall.imp ?_
        intro p p' hpp hp
        split_ifs at hpp with hi
        · simp only [Option.map_eq_some_iff] at hpp
          obtain ⟨n', hn', rfl⟩ := hpp
          exact (IH (depth + 1) p.2 row n' _ hn' hp).mono (by omega)
        · simp only [Option.some.injEq] at hpp
          subst hpp
          exact hp

/-- folding an outlier row in keeps the shape, hence the height -/
theorem addOutlier_height (c : FCtx α) :
    ∀ (fuel : Nat) (t : Node α) (row : Nat) (t' : Node α) (k : Nat),
      addOutlier c fuel t row = some t' → HeightLE t k → HeightLE t' k := by
  intro fuel
  induction fuel with
  | zero => intro t row t' k h; simp [addOutlier] at h
  | succ fuel IH =>
    intro t row t' k h hk
    cases t with
    | leaf d subs rows =>
      simp only [addOutlier, Option.some.injEq] at h
      subst h
      obtain ⟨k0, rfl⟩ : ∃ k0, k = k0 + 1 := ⟨k - 1, by have := hk.pos; omega⟩
      exact HeightLE.leaf _ _ _ k0
    | branch d subs ch =>
      obtain ⟨k0, rfl⟩ : ∃ k0, k = k0 + 1 := ⟨k - 1, by have := hk.pos; omega⟩
      have hc := hk.child
      rw [addOutlier] at h
      split at h
      · cases h
      · simp only [Option.map_eq_some_iff] at h
        obtain ⟨ch', hm, rfl⟩ := h
        have hall := mapM_option_some _ _ _ hm
        refine HeightLE.branch _ subs ch' k0 ?_
        apply forall₂_height (ch := ch) _ hc
        refine hall.imp ?_
        intro p p' hpp hp
        split_ifs at hpp with hi
        · simp only [Option.map_eq_some_iff] at hpp
          obtain ⟨n', hn', rfl⟩ := hpp
          exact IH p.2 row n' _ hn' hp
        · simp only [Option.some.injEq] at hpp
          subst hpp
          exact hp

theorem foldOutliers_height (c : FCtx α) (fuel : Nat) :
    ∀ (l : List Nat) (t t' : Node α) (k : Nat), l.foldlM (fun t r => addOutlier c fuel t r) t = some t' →
      HeightLE t k → HeightLE t' k := by
  intro l
  induction l with
  | nil =>
    intro t t' k h hk
    simp only [List.foldlM_nil, Option.pure_def, Option.some.injEq] at h
    subst h; exact hk
  | cons r l ih =>
    intro t t' k h hk
    rw [List.foldlM_cons] at h
    simp only [Option.bind_eq_bind, Option.bind_eq_some_iff] at h
    obtain ⟨t1, h1, h2⟩ := h
    exact ih t1 t' k h2 (addOutlier_height c fuel t r t1 k h1 hk)

theorem lookupChild_mem' {ch : List (Nat × Node α)} {idx : Nat} {n : Node α} (h : lookupChild ch idx = some n) :
    ∃ p ∈ ch, p.2 = n := by
  unfold lookupChild at h
  simp only [Option.map_eq_some_iff] at h
  obtain ⟨p, hp, rfl⟩ := h
  exact ⟨p, List.mem_of_find?_eq_some hp, rfl⟩

/-- the pushed-down root is a sub-tree with outliers folded in: never higher -/
theorem pushDown_height (E : Env α) (c : FCtx α) :
    ∀ (fuel : Nat) (t t' : Node α) (k : Nat), pushDown E c fuel t = some t' → HeightLE t k → HeightLE t' k := by
  intro fuel
  induction fuel with
  | zero => intro t t' k h; simp [pushDown] at h
  | succ fuel IH =>
    intro t t' k h hk
    cases t with
    | leaf d subs rows =>
      simp only [pushDown, Option.some.injEq] at h
      subst h; exact hk
    | branch d subs ch =>
      obtain ⟨k0, rfl⟩ : ∃ k0, k = k0 + 1 := ⟨k - 1, by have := hk.pos; omega⟩
      have hc := hk.child
      rw [pushDown] at h
      split at h
      · rename_i rs c0 _ _ hc0
        simp only [Option.bind_eq_some_iff] at h
        obtain ⟨t1, h1, h2⟩ := h
        obtain ⟨p, hp, rfl⟩ := lookupChild_mem' hc0
        exact (foldOutliers_height c _ rs t1 t' k0 h2 (IH p.2 t1 k0 h1 (hc p hp))).mono (by omega)
      · rename_i ls c1 _ _ hc1
        simp only [Option.bind_eq_some_iff] at h
        obtain ⟨t1, h1, h2⟩ := h
        obtain ⟨p, hp, rfl⟩ := lookupChild_mem' hc1
        exact (foldOutliers_height c _ ls t1 t' k0 h2 (IH p.2 t1 k0 h1 (hc p hp))).mono (by omega)
      · simp only [Option.some.injEq] at h
        subst h; exact hk

/-- inserting all rows with budget 4000 gives a tree of at most 4001 levels -/
theorem buildRows_height (E : Env α) (c : FCtx α) (rl : Int) (root t : Node α) (h : buildRows E c rl root = some t)
    (hr : HeightLE root 1) : HeightLE t 4001 := by
  unfold buildRows at h
  have fold : ∀ (l : List Nat) (b b' : Node α), HeightLE b 4001 →
      l.foldlM (fun t i => addRow E c rl 4000 0 t (i + 1)) b = some b' → HeightLE b' 4001 := by
    intro l
    induction l with
    | nil =>
      intro b b' hb h
      simp only [List.foldlM_nil, Option.pure_def, Option.some.injEq] at h
      subst h; exact hb
    | cons r l ihl =>
      intro b b' hb h
      rw [List.foldlM_cons] at h
      simp only [Option.bind_eq_bind, Option.bind_eq_some_iff] at h
      obtain ⟨b1, h1, h2⟩ := h
      exact ihl b1 b' ((addRow_height E c rl 4000 0 b (r + 1) b1 4001 h1 hb).mono (by omega)) h2
  exact fold _ root t (hr.mono (by omega)) h

/-- every tree a forest hands out has at most 4001 levels -/
theorem forest_tree_height (E : Env α) (inp : ForestIn α) (F : Forest α) (hinit : Forest.init E inp = .ok F)
    (fuel : Nat) (comb : List Nat) (t : Node α) (h : F.tree? E fuel comb = some t) : HeightLE t 4001 := by
  obtain ⟨_, _, _, _, _, ht⟩ := forest_init_trees1 E inp F hinit
  cases fuel with
  | zero => simp [Forest.tree?] at h
  | succ fuel =>
    by_cases h1 : ∃ j, comb = [j]
    · obtain ⟨j, rfl⟩ := h1
      rw [Forest.tree?] at h
      obtain ⟨hj, rfl⟩ := List.getElem?_eq_some_iff.mp h
      have := ht j hj
      simp only [tree1, Option.bind_eq_some_iff] at this
      obtain ⟨t0, h0, h1⟩ := this
      exact pushDown_height E F.ctx 4000 t0 _ 4001 h1
        (buildRows_height E F.ctx _ _ t0 h0 (by simp only [mkLeaf]; exact HeightLE.leaf _ _ _ 0))
    · rw [Forest.tree?] at h
      · split at h
        · cases h
        · exact buildRows_height E F.ctx _ _ t h (by simp only [mkLeaf]; exact HeightLE.leaf _ _ _ 0)
      · intro j hj; exact h1 ⟨j, hj⟩

/-- the released count of every forest tree's root is computed over all the rows of its leaves -/
theorem forest_tree_matchingRows (E : Env α) (inp : ForestIn α) (F : Forest α) (hinit : Forest.init E inp = .ok F)
    (fuel : Nat) (comb : List Nat) (t : Node α) (h : F.tree? E fuel comb = some t) :
    t.matchingRows 100000 = t.allRows :=
  matchingRows_eq_allRows (forest_tree_height E inp F hinit fuel comb t h) 100000 (by omega)

end
