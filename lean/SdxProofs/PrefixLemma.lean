import SdxModel.Microdata
/-!
The mask prefix of a string range: strings are ordered by code points (Python `str` comparison, `sorted(set(values))`);
the common prefix of the first and the last string of a range of the sorted value map is a prefix of every string in
between. Stated with core Lean's lexicographic order on `List Char` (no Mathlib import here, so that the order instance
is the core one).
-/

theorem commonPrefix_between : ∀ (a x b : List Char), a ≤ x → x ≤ b → commonPrefix a b <+: x := by
  intro a
  induction a with
  | nil => intro x b _ _; simp [commonPrefix]
  | cons ca as ih =>
    intro x b h1 h2
    cases b with
    | nil => simp [commonPrefix]
    | cons cb bs =>
      cases x with
      | nil => simp at h1
      | cons cx xs =>
        rw [List.cons_le_cons_iff] at h1 h2
        unfold commonPrefix
        by_cases hab : ca = cb
        · subst hab
          simp only [beq_self_eq_true, if_true]
          rcases h1 with h1 | ⟨rfl, h1⟩
          · rcases h2 with h2 | ⟨rfl, h2⟩
            · exact absurd (Char.lt_trans h1 h2) (Char.lt_irrefl _)
            · exact absurd h1 (Char.lt_irrefl _)
          · rcases h2 with h2 | ⟨_, h2⟩
            · exact absurd h2 (Char.lt_irrefl _)
            · simpa using ih xs bs h1 h2
        · have : (ca == cb) = false := by simpa using hab
          simp [this]

/-- in a sorted list, every element between positions `i ≤ k ≤ j` has the common prefix of elements `i` and `j` as a prefix -/
theorem commonPrefix_sorted_range (l : List (List Char)) (hs : l.Pairwise (· ≤ ·)) (i k j : Nat) (hik : i ≤ k) (hkj : k ≤ j)
    (hj : j < l.length) : commonPrefix (l[i]'(by omega)) (l[j]) <+: l[k]'(by omega) := by
  have le_of : ∀ (p q : Nat) (hq : q < l.length) (hpq : p ≤ q), l[p]'(by omega) ≤ l[q] := by
    intro p q hq hpq
    rcases Nat.lt_or_eq_of_le hpq with h | h
    · exact List.pairwise_iff_getElem.mp hs p q (by omega) hq h
    · subst h; exact List.le_refl _
  exact commonPrefix_between _ _ _ (le_of i k (by omega) hik) (le_of k j hj hkj)

/-- the value map of a string column: `sorted(set(values))`, i.e. increasing by code points -/
def SortedStrings (vm : List String) : Prop := (vm.map String.toList).Pairwise (· ≤ ·)

/-- the mask prefix built from the first and last string of an index range is a prefix of every string of that range -/
theorem mask_prefix_covers (vm : List String) (hs : SortedStrings vm) (i k j : Nat) (a x b : String)
    (hik : i ≤ k) (hkj : k ≤ j) (ha : vm[i]? = some a) (hx : vm[k]? = some x) (hb : vm[j]? = some b) :
    commonPrefix a.toList b.toList <+: x.toList := by
  have hj : j < vm.length := by
    rcases List.getElem?_eq_some_iff.mp hb with ⟨h, _⟩; exact h
  have hjl : j < (vm.map String.toList).length := by simpa using hj
  have := commonPrefix_sorted_range (vm.map String.toList) hs i k j hik hkj hjl
  have ea : (vm.map String.toList)[i]'(by omega) = a.toList := by
    rw [List.getElem_map]; congr 1
    exact (List.getElem?_eq_some_iff.mp ha).2
  have ex : (vm.map String.toList)[k]'(by omega) = x.toList := by
    rw [List.getElem_map]; congr 1
    exact (List.getElem?_eq_some_iff.mp hx).2
  have eb : (vm.map String.toList)[j] = b.toList := by
    rw [List.getElem_map]; congr 1
    exact (List.getElem?_eq_some_iff.mp hb).2
  rw [ea, ex, eb] at this
  exact this
