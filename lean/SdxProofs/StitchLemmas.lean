import SdxModel.Stitch
import SdxProofs.MonadLemmas
import Mathlib.Data.List.Perm.Basic
import Mathlib.Data.List.Range
import Mathlib.Tactic.Tauto
/-! Structural lemmas about `clustering/stitching.py` (rows are opaque; no arithmetic facts are used here). -/

section
variable {α : Type} [Add α] [Sub α] [Mul α] [Div α] [LT α] [LE α] [BEq α]
  [DecidableLT α] [DecidableLE α] [ScalarOps α] [Inhabited α]
variable {β : Type} [Inhabited β]

theorem insertAsc_perm {γ : Type} (lt : γ → γ → Bool) (x : γ) (l : List γ) : (insertAsc lt x l).Perm (x :: l) := by
  induction l with
  | nil => simp [insertAsc]
  | cons y ys ih =>
    unfold insertAsc
    split_ifs
    · exact (List.Perm.cons y ih).trans (List.Perm.swap x y ys)
    · exact List.Perm.refl _

theorem sortAscStable_perm {γ : Type} (lt : γ → γ → Bool) (l : List γ) : (sortAscStable lt l).Perm l := by
  induction l with
  | nil => simp [sortAscStable]
  | cons x xs ih => exact (insertAsc_perm lt x _).trans (List.Perm.cons x ih)

theorem sortRows_perm (idx : List Nat) (rows : List (MRow β α)) : (sortRows idx rows).Perm rows :=
  sortAscStable_perm _ rows

/-- a replayed shuffle is a permutation and consumes one recorded draw -/
theorem drawShuffle_ok {γ : Type} [Inhabited γ] (x r : List γ) (s s' : List (Draw α))
    (h : (drawShuffle (α := α) x).run s = .ok (r, s')) : r.Perm x := by
  unfold drawShuffle at h
  cases s with
  | nil => simp [get, getThe, MonadStateOf.get, StateT.get, StateT.run, bind, StateT.bind, Except.bind, throw, throwThe, MonadExceptOf.throw, StateT.lift, pure, Except.pure] at h
  | cons d rest =>
    cases d with
    | unit u => simp [get, getThe, MonadStateOf.get, StateT.get, StateT.run, bind, StateT.bind, Except.bind, throw, throwThe, MonadExceptOf.throw, StateT.lift, pure, Except.pure] at h
    | int m => simp [get, getThe, MonadStateOf.get, StateT.get, StateT.run, bind, StateT.bind, Except.bind, throw, throwThe, MonadExceptOf.throw, StateT.lift, pure, Except.pure] at h
    | pick p => simp [get, getThe, MonadStateOf.get, StateT.get, StateT.run, bind, StateT.bind, Except.bind, throw, throwThe, MonadExceptOf.throw, StateT.lift, pure, Except.pure] at h
    | perm p =>
      simp only [get, getThe, MonadStateOf.get, StateT.get, StateT.run, bind, StateT.bind, Except.bind, pure, Except.pure] at h
      by_cases hp : p.isPerm (List.range x.length) = true
      · simp [hp, StateT.bind, StateT.set, StateT.pure, bind, Except.bind, pure, Except.pure, set] at h
        obtain ⟨rfl, _⟩ := h
        have hperm : p.Perm (List.range x.length) := List.isPerm_iff.mp hp
        have h1 : (p.map (fun i => x.getD i default)).Perm ((List.range x.length).map (fun i => x.getD i default)) := hperm.map _
        have h2 : (List.range x.length).map (fun i => x.getD i default) = x := by
          apply List.ext_getElem
          · simp
          · intro i h1 h2
            simp only [List.length_map, List.length_range] at h1
            simp [List.getD_eq_getElem?_getD, h1]
        rw [h2] at h1; exact h1
      · simp [hp, throw, throwThe, MonadExceptOf.throw, StateT.lift, StateT.bind, bind, Except.bind] at h

/-- aligning a table to a length only repeats or drops its own rows -/
theorem alignLength_ok (len : Nat) (table r : List (MRow β α)) (s s' : List (Draw α))
    (h : (alignLength len table).run s = .ok (r, s')) :
    (∀ x ∈ r, x ∈ table) ∧ (len = table.length → r = table) ∧ (table ≠ [] ∨ len ≤ table.length → r.length = len) := by
  unfold alignLength at h
  simp only at h
  split_ifs at h with h1 h2
  · obtain ⟨rfl, _⟩ := StateT_pure_ok _ _ _ _ h
    simp only [beq_iff_eq] at h1
    exact ⟨fun x hx => hx, fun _ => rfl, fun _ => h1.symm⟩
  · obtain ⟨rfl, _⟩ := StateT_pure_ok _ _ _ _ h
    refine ⟨fun x hx => List.mem_of_mem_take hx, fun he => by omega, fun _ => by simp; omega⟩
  · obtain ⟨extra, s1, hm, h⟩ := StateT_bind_ok _ _ _ _ _ h
    obtain ⟨rfl, _⟩ := StateT_pure_ok _ _ _ _ h
    simp only [beq_iff_eq] at h1
    have hlen := mapM_length_of_ok _ _ _ _ _ hm
    have hall := mapM_forall₂_of_ok _ (fun (_ : Nat) (y : MRow β α) => y ∈ table ∨ table = []) (List.range (len - table.length))
      (by
        intro k _ st y st1 hk
        obtain ⟨i, s2, hi, hk⟩ := StateT_bind_ok _ _ _ _ _ hk
        obtain ⟨rfl, _⟩ := StateT_pure_ok _ _ _ _ hk
        have hb := drawInt_ok _ _ _ _ _ hi
        left
        have : i < table.length := by omega
        simp [List.getD_eq_getElem?_getD, this]) s extra s1 hm
    refine ⟨?_, fun he => absurd he (by omega), fun hne => by simp [hlen]; omega⟩
    intro x hx
    rcases List.mem_append.mp hx with hx | hx
    · exact hx
    · rcases forall₂_right _ _ _ hall x hx with h3 | h3
      · exact h3
      · -- an empty table cannot be extended: the draw `randint(0, -1)` fails
        exfalso
        have hpos : 0 < len - table.length := by omega
        obtain ⟨y, hy⟩ : ∃ y, y ∈ extra := by
          cases extra with
          | nil => simp at hlen; omega
          | cons y _ => exact ⟨y, by simp⟩
        -- the first draw already fails
        rw [h3] at hm
        cases hr : List.range (len - ([] : List (MRow β α)).length) with
        | nil => simp at hr; omega
        | cons k ks =>
          rw [hr] at hm
          simp only [List.mapM_cons] at hm
          obtain ⟨_, _, hk, _⟩ := StateT_bind_ok _ _ _ _ _ hm
          obtain ⟨i, _, hi, _⟩ := StateT_bind_ok _ _ _ _ _ hk
          have := drawInt_ok _ _ _ _ _ hi
          simp at this; omega

end

section
variable {α : Type} [Add α] [Sub α] [Mul α] [Div α] [LT α] [LE α] [BEq α]
  [DecidableLT α] [DecidableLE α] [ScalarOps α] [Inhabited α]
variable {β : Type} [Inhabited β]

/-- `result` is made of merges of actual left rows with actual right rows; with the left side as owner every left row
is used exactly once and the shared cells are the left row's. -/
def StitchedFrom (cols : List ColumnLocation) (owner : StitchOwner) (left right result : List (MRow β α)) : Prop :=
  ∃ pairs : List (MRow β α × MRow β α × Bool),
    result = pairs.map (fun t => mergeRow cols t.2.2 t.1 t.2.1) ∧
    (∀ t ∈ pairs, t.1 ∈ left ∧ t.2.1 ∈ right) ∧
    (owner = .left → (pairs.map (·.1)).Perm left ∧ ∀ t ∈ pairs, t.2.2 = true)

theorem StitchedFrom.of_perm {cols : List ColumnLocation} {owner : StitchOwner} {left left' right right' result : List (MRow β α)}
    (hl : left'.Perm left) (hr : right'.Perm right) (h : StitchedFrom cols owner left' right' result) :
    StitchedFrom cols owner left right result := by
  obtain ⟨pairs, h1, h2, h3⟩ := h
  exact ⟨pairs, h1, fun t ht => ⟨hl.mem_iff.mp (h2 t ht).1, hr.mem_iff.mp (h2 t ht).2⟩,
    fun ho => ⟨(h3 ho).1.trans hl, (h3 ho).2⟩⟩

theorem StitchedFrom.append {cols : List ColumnLocation} {owner : StitchOwner} {l1 l2 r1 r2 res1 res2 : List (MRow β α)}
    (h1 : StitchedFrom cols owner l1 r1 res1) (h2 : StitchedFrom cols owner l2 r2 res2) :
    StitchedFrom cols owner (l1 ++ l2) (r1 ++ r2) (res1 ++ res2) := by
  obtain ⟨p1, a1, b1, c1⟩ := h1
  obtain ⟨p2, a2, b2, c2⟩ := h2
  refine ⟨p1 ++ p2, by simp [a1, a2], ?_, ?_⟩
  · intro t ht
    rcases List.mem_append.mp ht with ht | ht
    · exact ⟨List.mem_append_left _ (b1 t ht).1, List.mem_append_left _ (b1 t ht).2⟩
    · exact ⟨List.mem_append_right _ (b2 t ht).1, List.mem_append_right _ (b2 t ht).2⟩
  · intro ho
    refine ⟨by simpa using List.Perm.append (c1 ho).1 (c2 ho).1, ?_⟩
    intro t ht
    rcases List.mem_append.mp ht with ht | ht
    · exact (c1 ho).2 t ht
    · exact (c2 ho).2 t ht

/-- T12.a/b for the terminal merge -/
theorem mergeMicrodata_spec (c : StitchCtx α) (left right result : List (MRow β α)) (s s' : List (Draw α))
    (h : (mergeMicrodata c left right).run s = .ok (result, s')) : StitchedFrom c.cols c.owner left right result := by
  unfold mergeMicrodata at h
  by_cases he : (left.isEmpty || right.isEmpty) = true
  · simp [he, throw, throwThe, MonadExceptOf.throw, StateT.lift, StateT.run, bind, StateT.bind, Except.bind] at h
  · simp only [he, Bool.false_eq_true, if_false] at h
    simp only [Bool.or_eq_true, List.isEmpty_iff, not_or] at he
    obtain ⟨hln, hrn⟩ := he
    generalize hn : mergeCount (α := α) c.owner left.length right.length = n at h
    obtain ⟨l1, s1, hl1, h⟩ := StateT_bind_ok _ _ _ _ _ h
    obtain ⟨l2, s2, hl2, h⟩ := StateT_bind_ok _ _ _ _ _ h
    obtain ⟨r1, s3, hr1, h⟩ := StateT_bind_ok _ _ _ _ _ h
    obtain ⟨r2, s4, hr2, h⟩ := StateT_bind_ok _ _ _ _ _ h
    obtain ⟨rfl, _⟩ := StateT_pure_ok _ _ _ _ h
    have pl1 := drawShuffle_ok left l1 s s1 hl1
    have pr1 := drawShuffle_ok right r1 s2 s3 hr1
    have hl1ne : l1 ≠ [] := fun e => hln (by rw [e] at pl1; exact pl1.symm.eq_nil)
    have hr1ne : r1 ≠ [] := fun e => hrn (by rw [e] at pr1; exact pr1.symm.eq_nil)
    obtain ⟨al1, al2, al3⟩ := alignLength_ok n l1 l2 s1 s2 hl2
    obtain ⟨ar1, _, ar3⟩ := alignLength_ok n r1 r2 s3 s4 hr2
    have hl3len : (sortRows c.leftIdx l2).length = n := by rw [(sortRows_perm _ _).length_eq]; exact al3 (Or.inl hl1ne)
    have hr3len : (sortRows c.rightIdx r2).length = n := by rw [(sortRows_perm _ _).length_eq]; exact ar3 (Or.inl hr1ne)
    refine ⟨(List.range n).map (fun i => ((sortRows c.leftIdx l2).getD i [], (sortRows c.rightIdx r2).getD i [], pickLeft c.owner i)), ?_, ?_, ?_⟩
    · simp [List.map_map, Function.comp_def]
    · intro t ht
      obtain ⟨i, hi, rfl⟩ := List.mem_map.mp ht
      have hi' : i < n := List.mem_range.mp hi
      constructor
      · have : (sortRows c.leftIdx l2).getD i [] ∈ sortRows c.leftIdx l2 := by
          simp [List.getD_eq_getElem?_getD, hl3len, hi']
        exact pl1.mem_iff.mp (al1 _ ((sortRows_perm _ _).mem_iff.mp this))
      · have : (sortRows c.rightIdx r2).getD i [] ∈ sortRows c.rightIdx r2 := by
          simp [List.getD_eq_getElem?_getD, hr3len, hi']
        exact pr1.mem_iff.mp (ar1 _ ((sortRows_perm _ _).mem_iff.mp this))
    · intro ho
      rw [ho] at hn
      simp only [mergeCount] at hn
      have hnl : n = l1.length := by rw [← hn, pl1.length_eq]
      have hl2 : l2 = l1 := al2 hnl
      refine ⟨?_, ?_⟩
      · simp only [List.map_map, Function.comp_def]
        have : (List.range n).map (fun i => (sortRows c.leftIdx l2).getD i []) = sortRows c.leftIdx l2 := by
          apply List.ext_getElem
          · simp [hl3len]
          · intro i h1 h2
            simp only [List.length_map, List.length_range] at h1
            simp [List.getD_eq_getElem?_getD, hl3len, h1]
        rw [this, hl2]
        exact (sortRows_perm _ _).trans pl1
      · intro t ht
        obtain ⟨i, _, rfl⟩ := List.mem_map.mp ht
        simp [ho, pickLeft]

end

section
variable {α : Type} [Add α] [Sub α] [Mul α] [Div α] [LT α] [LE α] [BEq α]
  [DecidableLT α] [DecidableLE α] [ScalarOps α] [Inhabited α]
variable {β : Type} [Inhabited β]

theorem presort_perm (c : StitchCtx α) (st : StitchState α) (left right : List (MRow β α)) :
    (presort c st left right).1.Perm left ∧ (presort c st left right).2.Perm right := by
  unfold presort
  split_ifs
  · exact ⟨sortRows_perm _ _, sortRows_perm _ _⟩
  · exact ⟨List.Perm.refl _, List.Perm.refl _⟩

theorem stitchSplit_spec (c : StitchCtx α)
    (recur : StitchState α → List (MRow β α) → List (MRow β α) → GM α (List (MRow β α)))
    (hrec : ∀ (st : StitchState α) (l r res : List (MRow β α)) (s s' : List (Draw α)),
      (recur st l r).run s = .ok (res, s') → StitchedFrom c.cols c.owner l r res)
    (st : StitchState α) (left right result : List (MRow β α)) (s s' : List (Draw α))
    (h : (stitchSplit c recur st left right).run s = .ok (result, s')) : StitchedFrom c.cols c.owner left right result := by
  unfold stitchSplit at h
  simp only at h
  by_cases h3 : (acceptableDistribution c.threshRel
      (List.take (max 0 (binarySearch left (c.leftIdx.getD st.nextSort 0) (st.intervals.getD st.nextSort default).middle (left.length + 2) 0 left.length)).toNat left).length
      (List.take (max 0 (binarySearch right (c.rightIdx.getD st.nextSort 0) (st.intervals.getD st.nextSort default).middle (right.length + 2) 0 right.length)).toNat right).length &&
    acceptableDistribution c.threshRel
      (List.drop (max 0 (binarySearch left (c.leftIdx.getD st.nextSort 0) (st.intervals.getD st.nextSort default).middle (left.length + 2) 0 left.length)).toNat left).length
      (List.drop (max 0 (binarySearch right (c.rightIdx.getD st.nextSort 0) (st.intervals.getD st.nextSort default).middle (right.length + 2) 0 right.length)).toNat right).length) = true
  · rw [if_pos h3] at h
    obtain ⟨lower, s1, hlo, h⟩ := StateT_bind_ok _ _ _ _ _ h
    obtain ⟨upper, s2, hup, h⟩ := StateT_bind_ok _ _ _ _ _ h
    obtain ⟨rfl, _⟩ := StateT_pure_ok _ _ _ _ h
    have := StitchedFrom.append (hrec _ _ _ _ _ _ hlo) (hrec _ _ _ _ _ _ hup)
    simpa [List.take_append_drop] using this
  · rw [if_neg h3] at h
    exact hrec _ _ _ _ _ _ h

/-- T12.a/b  for the whole recursion: whatever the split decisions, the result is made of merges of actual left rows with
actual right rows, and with the left side as owner the left table is preserved as a multiset. -/
theorem stitchRec_spec (c : StitchCtx α) : ∀ (fuel : Nat) (st : StitchState α) (left right result : List (MRow β α))
    (s s' : List (Draw α)), (stitchRec c fuel st left right).run s = .ok (result, s') →
    StitchedFrom c.cols c.owner left right result := by
  intro fuel
  induction fuel with
  | zero => intro st left right result s s' h; simp [stitchRec, throw, throwThe, MonadExceptOf.throw, StateT.run, StateT.lift] at h
  | succ f ih =>
    intro st left right result s s' h
    unfold stitchRec at h
    by_cases h1 : (st.attempts == 0 || left.length == 1 || right.length == 1) = true
    · rw [if_pos h1] at h
      exact mergeMicrodata_spec c left right result s s' h
    · rw [if_neg h1] at h
      by_cases h2 : canSplit c st = true
      · rw [if_pos h2] at h
        obtain ⟨pl, pr⟩ := presort_perm c st left right
        exact StitchedFrom.of_perm pl pr (stitchSplit_spec c (stitchRec c f) ih st _ _ result s s' h)
      · rw [if_neg h2] at h
        exact ih _ _ _ _ _ _ h

/-- T12.d  patching keeps the left rows in order and draws right cells from right rows only. -/
theorem doPatch_spec (left right : MTable β α) (res : MTable β α) (s s' : List (Draw α))
    (h : (doPatch left right).run s = .ok (res, s')) :
    ∃ rs : List (MRow β α), rs.length = left.1.length ∧ (∀ r ∈ rs, r ∈ right.1) ∧
      res.1 = (List.zip left.1 rs).map (fun p => mergeRow (locateColumns left.2 right.2) true p.1 p.2) ∧
      res.2 = (locateColumns left.2 right.2).map (·.columnId) := by
  unfold doPatch at h
  obtain ⟨r1, s1, hr1, h⟩ := StateT_bind_ok _ _ _ _ _ h
  have pr1 := drawShuffle_ok right.1 r1 s s1 hr1
  split_ifs at h with he
  · simp [throw, throwThe, MonadExceptOf.throw, StateT.lift, StateT.run, bind, StateT.bind, Except.bind] at h
  · simp only [pure_bind] at h
    obtain ⟨r2, s2, hr2, h⟩ := StateT_bind_ok _ _ _ _ _ h
    obtain ⟨rfl, _⟩ := StateT_pure_ok _ _ _ _ h
    obtain ⟨a1, _, a3⟩ := alignLength_ok left.1.length r1 r2 s1 s2 hr2
    have hlen : r2.length = left.1.length := by
      apply a3
      by_cases hr : r1 = []
      · right
        subst hr
        simp only [List.length_nil, List.isEmpty_nil, Bool.and_true, decide_eq_true_eq, not_lt] at he
        simpa using he
      · exact Or.inl hr
    refine ⟨r2, hlen, fun r hr => pr1.mem_iff.mp (a1 r hr), ?_, rfl⟩
    rfl

end
