import SdxProofs.PushDown
set_option linter.unusedSectionVars false
set_option linter.unusedVariables false
/-!
Where sub-nodes come from: if the sub-nodes of a tree's root satisfy a predicate that is closed under taking children,
then so do the sub-nodes of every node `add_row` (and the 1-dim push-down) ever creates below it.
-/

section
variable {α : Type} [Field α] [LinearOrder α] [IsStrictOrderedRing α] [FloorRing α] [Inhabited α]

def ChildClosed (P : Node α → Prop) : Prop :=
  ∀ (d : NodeData α) (s : List (Option (Node α))) (ch : List (Nat × Node α)) (p : Nat × Node α),
    P (.branch d s ch) → p ∈ ch → P p.2

/-- every sub-node of every node of the tree satisfies `P` -/
inductive SubsFrom (P : Node α → Prop) : Node α → Prop
  | leaf (d : NodeData α) (subs : List (Option (Node α))) (rows : List Nat) :
      (∀ s, some s ∈ subs → P s) → SubsFrom P (.leaf d subs rows)
  | branch (d : NodeData α) (subs : List (Option (Node α))) (ch : List (Nat × Node α)) :
      (∀ s, some s ∈ subs → P s) → (∀ p ∈ ch, SubsFrom P p.2) → SubsFrom P (.branch d subs ch)

theorem SubsFrom.subs {P : Node α → Prop} {t : Node α} (h : SubsFrom P t) : ∀ s, some s ∈ t.subnodes → P s := by
  cases h with
  | leaf _ _ _ h1 => exact h1
  | branch _ _ _ h1 _ => exact h1

theorem Node.Sub.trans {a b c : Node α} (h1 : Node.Sub a b) (h2 : Node.Sub b c) : Node.Sub a c := by
  induction h2 with
  | refl => exact h1
  | child d s ch p hp _ ih => exact Node.Sub.child _ d s ch p hp ih

theorem SubsFrom.sub {P : Node α → Prop} {n t : Node α} (hs : Node.Sub n t) (h : SubsFrom P t) : SubsFrom P n := by
  induction hs with
  | refl => exact h
  | child d s ch p hp _ ih =>
    cases h with
    | branch _ _ _ _ hC => exact ih (hC p hp)

/-- the sub-nodes `_create_child_leaf` hands to a new child are children of the parent's sub-nodes -/
theorem createChild_subsFrom (P : Node α → Prop) (hP : ChildClosed P) (E : Env α) (c : FCtx α) (d : NodeData α)
    (subs : List (Option (Node α))) (idx row : Nat) (h : ∀ s, some s ∈ subs → P s) :
    SubsFrom P (createChild E c d subs idx row) := by
  unfold createChild mkLeaf
  apply SubsFrom.leaf
  intro s' hs'
  rw [List.mem_map] at hs'
  obtain ⟨⟨k, sk⟩, hz, hco⟩ := hs'
  simp only at hco
  have hsk : sk ∈ subs := (List.of_mem_zip hz).2
  unfold childOfSub at hco
  split at hco
  · rename_i ds ss chs
    exact hP ds ss chs _ (h _ hsk) (lookupChild_mem hco)
  · cases hco

/-- `add_row` creates no sub-node that is not a descendant of the root's sub-nodes -/
theorem addRow_subsFrom (P : Node α → Prop) (hP : ChildClosed P) (E : Env α) (c : FCtx α) (rl : Int) :
    ∀ (fuel depth : Nat) (t : Node α) (row : Nat) (t' : Node α), SubsFrom P t →
      addRow E c rl fuel depth t row = some t' → SubsFrom P t' := by
  intro fuel
  induction fuel with
  | zero => intro depth t row t' _ h; simp [addRow] at h
  | succ fuel IH =>
    intro depth t row t' hT h
    have reinsert : ∀ (l : List Nat) (t t' : Node α), SubsFrom P t →
        l.foldlM (fun b r => addRow E c rl fuel depth b r) t = some t' → SubsFrom P t' := by
      intro l
      induction l with
      | nil => intro t t' hT h; simp only [List.foldlM_nil, Option.pure_def, Option.some.injEq] at h; subst h; exact hT
      | cons r l ihl =>
        intro t t' hT h
        rw [List.foldlM_cons] at h
        simp only [Option.bind_eq_bind, Option.bind_eq_some_iff] at h
        obtain ⟨t1, h1, h2⟩ := h
        exact ihl t1 t' (IH depth t r t1 hT h1) h2
    cases hT with
    | leaf d subs rows hs =>
      rw [addRow] at h
      split_ifs at h
      · exact reinsert _ _ t' (SubsFrom.branch _ _ _ hs (fun p hp => by simp at hp)) h
      · simp only [Option.some.injEq] at h; subst h; exact SubsFrom.leaf _ _ _ hs
    | branch d subs ch hs hC =>
      rw [addRow] at h
      cases hf : ch.find? (fun p => p.1 == childIndex d.snapped (c.vals d.comb row)) with
      | none =>
        rw [hf] at h
        simp only [Option.some.injEq] at h
        subst h
        refine SubsFrom.branch _ _ _ hs ?_
        intro p hp
        rcases List.mem_append.mp hp with hp | hp
        · exact hC p hp
        · rw [List.mem_singleton.mp hp]
          exact createChild_subsFrom P hP E c d subs _ row hs
      | some q0 =>
        rw [hf] at h
        simp only [Option.map_eq_some_iff] at h
        obtain ⟨ch', hm, rfl⟩ := h
        refine SubsFrom.branch _ _ _ hs ?_
        -- every element of the updated children list is an old child or the result of `add_row` on one
        have key : ∀ (l l' : List (Nat × Node α)), (∀ p ∈ l, SubsFrom P p.2) →
            l.mapM (fun p => if p.1 == childIndex d.snapped (c.vals d.comb row)
              then (addRow E c rl fuel (depth + 1) p.2 row).map (fun n => (p.1, n)) else some p) = some l' →
            ∀ p ∈ l', SubsFrom P p.2 := by
          intro l
          induction l with
          | nil => intro l' _ h p hp; simp at h; subst h; simp at hp
          | cons a rest ih =>
            intro l' hall h p hp
            rw [List.mapM_cons] at h
            simp only [Option.bind_eq_bind, Option.pure_def, Option.bind_eq_some_iff, Option.some.injEq] at h
            obtain ⟨b, hb, bs, hbs, rfl⟩ := h
            rcases List.mem_cons.mp hp with rfl | hp
            · split_ifs at hb with hc
              · rw [Option.map_eq_some_iff] at hb
                obtain ⟨n', hn', rfl⟩ := hb
                exact IH _ _ _ _ (hall a (by simp)) hn'
              · simp only [Option.some.injEq] at hb; subst hb; exact hall _ (by simp)
            · exact ih bs (fun q hq => hall q (by simp [hq])) hbs p hp
        exact key ch ch' hC hm


theorem foldlM_subsFrom (P : Node α → Prop) (f : Node α → Nat → Option (Node α))
    (hf : ∀ t r t', SubsFrom P t → f t r = some t' → SubsFrom P t') :
    ∀ (l : List Nat) (t t' : Node α), SubsFrom P t → l.foldlM f t = some t' → SubsFrom P t' := by
  intro l
  induction l with
  | nil => intro t t' hT h; simp only [List.foldlM_nil, Option.pure_def, Option.some.injEq] at h; subst h; exact hT
  | cons r l ih =>
    intro t t' hT h
    rw [List.foldlM_cons] at h
    simp only [Option.bind_eq_bind, Option.bind_eq_some_iff] at h
    obtain ⟨t1, h1, h2⟩ := h
    exact ih t1 t' (hf t r t1 hT h1) h2

theorem buildRows_subsFrom (P : Node α → Prop) (hP : ChildClosed P) (E : Env α) (c : FCtx α) (rl : Int) (root t : Node α)
    (h0 : SubsFrom P root) (h : buildRows E c rl root = some t) : SubsFrom P t := by
  unfold buildRows at h
  exact foldlM_subsFrom P _ (fun t r t' hT hr => addRow_subsFrom P hP E c rl 4000 0 t (r + 1) t' hT hr) _ _ _ h0 h

/-- folding an outlier row creates no sub-nodes -/
theorem addOutlier_subsFrom (P : Node α → Prop) (c : FCtx α) :
    ∀ (fuel : Nat) (t : Node α) (row : Nat) (t' : Node α), SubsFrom P t → addOutlier c fuel t row = some t' → SubsFrom P t' := by
  intro fuel
  induction fuel with
  | zero => intro t row t' _ h; simp [addOutlier] at h
  | succ fuel IH =>
    intro t row t' hT h
    cases hT with
    | leaf d subs rows hs =>
      simp only [addOutlier, Option.some.injEq] at h
      subst h
      exact SubsFrom.leaf _ _ _ hs
    | branch d subs ch hs hC =>
      rw [addOutlier] at h
      split at h
      · cases h
      · simp only [Option.map_eq_some_iff] at h
        obtain ⟨ch', hm, rfl⟩ := h
        refine SubsFrom.branch _ _ _ hs ?_
        have key : ∀ (l l' : List (Nat × Node α)), (∀ p ∈ l, SubsFrom P p.2) →
            l.mapM (fun p => if p.1 == outlierIndex c d ch row
              then (addOutlier c fuel p.2 row).map (fun n => (p.1, n)) else some p) = some l' →
            ∀ p ∈ l', SubsFrom P p.2 := by
          intro l
          induction l with
          | nil => intro l' _ h p hp; simp at h; subst h; simp at hp
          | cons a rest ih =>
            intro l' hall h p hp
            rw [List.mapM_cons] at h
            simp only [Option.bind_eq_bind, Option.pure_def, Option.bind_eq_some_iff, Option.some.injEq] at h
            obtain ⟨b, hb, bs, hbs, rfl⟩ := h
            rcases List.mem_cons.mp hp with rfl | hp
            · split_ifs at hb with hc
              · rw [Option.map_eq_some_iff] at hb
                obtain ⟨n', hn', rfl⟩ := hb
                exact IH _ _ _ (hall a (by simp)) hn'
              · simp only [Option.some.injEq] at hb; subst hb; exact hall _ (by simp)
            · exact ih bs (fun q hq => hall q (by simp [hq])) hbs p hp
        exact key ch ch' hC hm

theorem pushDown_subsFrom (P : Node α → Prop) (E : Env α) (c : FCtx α) :
    ∀ (fuel : Nat) (t t' : Node α), SubsFrom P t → pushDown E c fuel t = some t' → SubsFrom P t' := by
  intro fuel
  induction fuel with
  | zero => intro t t' _ h; simp [pushDown] at h
  | succ fuel IH =>
    intro t t' hT h
    cases t with
    | leaf d s rows => simp only [pushDown, Option.some.injEq] at h; subst h; exact hT
    | branch d s ch =>
      have hchild : ∀ k ck, lookupChild ch k = some ck → SubsFrom P ck := by
        intro k ck hck
        cases hT with
        | branch _ _ _ _ hC => exact hC _ (lookupChild_mem hck)
      rw [pushDown] at h
      split at h
      · rename_i _ _ _ _ rs c0 hl0 hl1 hc0
        simp only [Option.bind_eq_some_iff] at h
        obtain ⟨t1, hpd, hf⟩ := h
        exact foldlM_subsFrom P _ (fun t r t' hT hr => addOutlier_subsFrom P c 100000 t r t' hT hr) _ _ _
          (IH c0 t1 (hchild 0 c0 hc0) hpd) hf
      · rename_i _ _ _ _ ls c1 hl0 hl1 hc1
        simp only [Option.bind_eq_some_iff] at h
        obtain ⟨t1, hpd, hf⟩ := h
        exact foldlM_subsFrom P _ (fun t r t' hT hr => addOutlier_subsFrom P c 100000 t r t' hT hr) _ _ _
          (IH c1 t1 (hchild 1 c1 hc1) hpd) hf
      · simp only [Option.some.injEq] at h; subst h; exact hT

/-- everything reachable from a tree whose sub-nodes (at every node) satisfy a child-closed `P` that also implies
`SubsFrom P` … satisfies `P` — given that the tree itself does -/
theorem reach_of_subsFrom (P : Node α → Prop) (hP : ChildClosed P) (hPS : ∀ m, P m → SubsFrom P m) (t : Node α) (ht : P t) :
    ∀ m, Reach t m → P m := by
  intro m hr
  induction hr with
  | refl => exact ht
  | child d s ch p _ hp ih => exact hP d s ch p ih hp
  | sub n m _ hm ih => exact (hPS n ih).subs m hm

end
