import SdxProofs.IntervalLemmas
import SdxProofs.CounterLemmas
import SdxModel.Forest
import Mathlib.Tactic.Ring
import Mathlib.Data.Nat.Bitwise
set_option linter.unusedSectionVars false
/-! Index arithmetic of `tree.py`: child index bits and removal of a dimension. -/

/-- a bit string read most-significant first -/
def bitsValue (bs : List Nat) : Nat := bs.foldl (fun acc b => acc * 2 + b) 0

theorem bitsValue_append (bs : List Nat) (b : Nat) : bitsValue (bs ++ [b]) = bitsValue bs * 2 + b := by
  simp [bitsValue, List.foldl_append]

/-- bit `n-1-j` (counted from the least significant end) of the value is the `j`-th element -/
theorem bitsValue_bit (bs : List Nat) (hb : ∀ b ∈ bs, b < 2) (j : Nat) (hj : j < bs.length) :
    (bitsValue bs / 2 ^ (bs.length - 1 - j)) % 2 = bs[j] := by
  induction bs using List.reverseRecOn generalizing j with
  | nil => simp at hj
  | append_singleton bs b ih =>
    rw [bitsValue_append]
    have hb' : b < 2 := hb b (by simp)
    have hbs : ∀ x ∈ bs, x < 2 := fun x hx => hb x (by simp [hx])
    simp only [List.length_append, List.length_singleton] at hj ⊢
    by_cases hlast : j = bs.length
    · subst hlast
      simp only [Nat.add_sub_cancel, Nat.sub_self, pow_zero, Nat.div_one, List.getElem_concat_length]
      omega
    · have hj' : j < bs.length := by omega
      have e : bs.length + 1 - 1 - j = (bs.length - 1 - j) + 1 := by omega
      rw [e, pow_succ, Nat.mul_comm (2 ^ (bs.length - 1 - j)) 2, ← Nat.div_div_eq_div_mul]
      have : (bitsValue bs * 2 + b) / 2 = bitsValue bs := by omega
      rw [this, ih hbs j hj', List.getElem_append_left hj']

theorem bitsValue_bit' (bs : List Nat) (hb : ∀ b ∈ bs, b < 2) (n : Nat) (hn : bs.length = n) (j : Nat) (hj : j < bs.length) :
    (bitsValue bs / 2 ^ (n - 1 - j)) % 2 = bs[j] := by
  subst hn; exact bitsValue_bit bs hb j hj

theorem removeDim_lt (position index : Nat) : removeDim position index =
    (index / 2 ^ (position + 1)) * 2 ^ position + index % 2 ^ position := rfl

/-- `_remove_dimension_from_index` deletes exactly bit `position`: lower bits stay, higher bits move down by one. -/
theorem removeDim_testBit (position index j : Nat) :
    (removeDim position index).testBit j = index.testBit (if j < position then j else j + 1) := by
  unfold removeDim
  have hlt : index % 2 ^ position < 2 ^ position := Nat.mod_lt _ (by positivity)
  rw [mul_comm, Nat.testBit_two_pow_mul_add _ hlt]
  split_ifs with h
  · rw [Nat.testBit_mod_two_pow]; simp [h]
  · rw [Nat.testBit_div_two_pow]
    congr 1; omega

section
variable {α : Type} [Field α] [LinearOrder α] [IsStrictOrderedRing α] [FloorRing α] [Inhabited α]

theorem halfIndex_lt_two (i : Ival α) (v : α) : i.halfIndex v < 2 := by
  unfold Ival.halfIndex; split_ifs <;> omega

theorem childIndex_eq_bitsValue (ivs : List (Ival α)) (vs : List α) :
    childIndex ivs vs = bitsValue ((List.zip ivs vs).map fun p => p.1.halfIndex p.2) := by
  simp only [childIndex, bitsValue, List.foldl_map]

/-- bit `d-1-j` of a child index is the half index of dimension `j` — for any number of dimensions. -/
theorem childIndex_bit (ivs : List (Ival α)) (vs : List α) (hl : ivs.length = vs.length) (j : Nat)
    (hj : j < ivs.length) :
    (childIndex ivs vs / 2 ^ (ivs.length - 1 - j)) % 2 = ivs[j].halfIndex (vs[j]'(hl ▸ hj)) := by
  rw [childIndex_eq_bitsValue]
  have hlen : ((List.zip ivs vs).map fun p => p.1.halfIndex p.2).length = ivs.length := by simp [hl]
  have := bitsValue_bit' ((List.zip ivs vs).map fun p => p.1.halfIndex p.2)
    (by intro b hb; obtain ⟨p, _, rfl⟩ := List.mem_map.mp hb; exact halfIndex_lt_two _ _) ivs.length hlen j (by rw [hlen]; exact hj)
  rw [this]; simp

end
