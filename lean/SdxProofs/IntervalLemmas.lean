import SdxProofs.Field
import SdxModel.Interval
import Mathlib.Tactic.FieldSimp
import Mathlib.Tactic.Push
set_option linter.unusedSectionVars false
/-! Helper lemmas for `interval.py` over an ordered field with floor. -/

section
variable {α : Type} [Field α] [LinearOrder α] [IsStrictOrderedRing α] [FloorRing α]

theorem nextPow2_ge {x : α} (_hx : 0 < x) : x ≤ (ScalarOps.nextPow2 x : α) := by
  simpa using Int.self_le_zpow_clog (b := 2) (by norm_num) x

theorem nextPow2_lt {x : α} (hx : 0 < x) : (ScalarOps.nextPow2 x : α) < 2 * x := by
  have h := Int.zpow_pred_clog_lt_self (R := α) (b := 2) (by norm_num) hx
  simp only [snextPow2_eq]
  have h2 : (2 : α) ^ (Int.clog 2 x) = 2 * (2 : α) ^ (Int.clog 2 x - 1) := by
    rw [zpow_sub_one₀ (by norm_num : (2 : α) ≠ 0)]; field_simp
  rw [h2]; push_cast at h; linarith

theorem nextPow2_pos (x : α) : 0 < (ScalarOps.nextPow2 x : α) := by
  simp only [snextPow2_eq]; exact zpow_pos (by norm_num) _

theorem floorBy_le (v : α) {a : α} (ha : 0 < a) : floorBy v a ≤ v := by
  unfold floorBy; simp only [sfloor_eq]
  have := Int.floor_le (v / a)
  calc ((⌊v / a⌋ : ℤ) : α) * a ≤ (v / a) * a := by gcongr
    _ = v := by field_simp

theorem lt_floorBy_add (v : α) {a : α} (ha : 0 < a) : v < floorBy v a + a := by
  unfold floorBy; simp only [sfloor_eq]
  have := Int.lt_floor_add_one (v / a)
  calc v = (v / a) * a := by field_simp
    _ < (((⌊v / a⌋ : ℤ) : α) + 1) * a := by gcongr
    _ = _ := by ring

end
