import SdxModel.Solver
import SdxProofs.MonadLemmas
import Mathlib.Data.List.Perm.Basic
import Mathlib.Data.List.Basic
import Mathlib.Data.List.Range
import Mathlib.Data.List.Nodup
import Mathlib.Tactic.Tauto
import Mathlib.Tactic.Linarith
/-! Structural lemmas about `clustering/solver.py`: which columns end up where — for every matrix, weight
vector, threshold, permutation and set iteration order (no arithmetic facts about `Float` are used). -/

/-! ### `CSet`: logical content vs. iteration order -/

/-- the iteration order is a permutation of the content, whatever the table replica does -/
theorem CSet_toList_perm (s : CSet) : s.toList.Perm s.elems := by
  unfold CSet.toList
  split_ifs with h
  · exact List.isPerm_iff.mp h
  · exact List.Perm.refl _

theorem CSet.mem_toList (s : CSet) (x : Nat) : x ∈ s.toList ↔ x ∈ s.elems := (CSet_toList_perm s).mem_iff

theorem CSet.elems_add (s : CSet) (k : Nat) : (s.add k).elems = if k ∈ s.elems then s.elems else s.elems ++ [k] := by
  unfold CSet.add
  by_cases h : k ∈ s.elems <;> simp [h]

theorem CSet.mem_add (s : CSet) (k x : Nat) : x ∈ (s.add k).elems ↔ x ∈ s.elems ∨ x = k := by
  rw [CSet.elems_add]
  split_ifs with h
  · constructor
    · exact Or.inl
    · rintro (h1 | rfl); exact h1; exact h
  · simp

theorem CSet.elems_singleton (k : Nat) : (CSet.singleton k).elems = [k] := by
  simp [CSet.singleton, CSet.empty, CSet.elems_add]

theorem CSet.elems_copy (s : CSet) : s.copy.elems = s.elems := rfl

theorem CSet.mem_update (s : CSet) (ks : List Nat) (x : Nat) : x ∈ (s.update ks).elems ↔ x ∈ s.elems ∨ x ∈ ks := by
  unfold CSet.update
  induction ks generalizing s with
  | nil => simp
  | cons k ks ih => rw [List.foldl_cons, ih, CSet.mem_add]; simp only [List.mem_cons]; tauto

theorem CSet.nodup_add (s : CSet) (k : Nat) (h : s.elems.Nodup) : (s.add k).elems.Nodup := by
  rw [CSet.elems_add]
  split_ifs with hk
  · exact h
  · exact List.Nodup.append h (by simp) (by simpa using hk)

/-! ### the greedy assignment -/

/-- all columns assigned so far -/
def assigned (clusters : List MutableCluster) : List Nat := (clusters.map (·.columns.elems)).flatten

theorem pickStep_fst (ctx : ClusteringContext) (mw th : Float) (w : Array Float) (col : Nat)
    (best : Option Nat × Float) (ic : Nat × MutableCluster) :
    (pickStep ctx mw th w col best ic).1 = best.1 ∨ (pickStep ctx mw th w col best ic).1 = some ic.1 := by
  unfold pickStep
  simp only
  split_ifs <;> simp

theorem pickCluster_lt (ctx : ClusteringContext) (mw th : Float) (w : Array Float) (clusters : List MutableCluster) (col bi : Nat)
    (h : pickCluster ctx mw th w clusters col = some bi) : bi < clusters.length := by
  unfold pickCluster at h
  have key : ∀ (l : List (Nat × MutableCluster)) (init : Option Nat × Float),
      (init.1 = none ∨ ∃ i, init.1 = some i ∧ i < clusters.length) → (∀ ic ∈ l, ic.1 < clusters.length) →
      ((l.foldl (pickStep ctx mw th w col) init).1 = none ∨
        ∃ i, (l.foldl (pickStep ctx mw th w col) init).1 = some i ∧ i < clusters.length) := by
    intro l
    induction l with
    | nil => intro init hi _; simpa using hi
    | cons x xs ih =>
      intro init hi hl
      rw [List.foldl_cons]
      apply ih
      · rcases pickStep_fst ctx mw th w col init x with h1 | h1
        · rw [h1]; exact hi
        · exact Or.inr ⟨x.1, h1, hl x (by simp)⟩
      · intro ic hic; exact hl ic (by simp [hic])
  have := key (List.zip (List.range clusters.length) clusters) (none, -1.0) (Or.inl rfl) (by
    intro ic hic
    have := (List.of_mem_zip hic).1
    simpa using this)
  rcases this with h0 | ⟨i, hi, hlt⟩
  · rw [h0] at h; cases h
  · rw [hi] at h; cases h; exact hlt

theorem assigned_append (a b : List MutableCluster) : assigned (a ++ b) = assigned a ++ assigned b := by
  simp [assigned]

theorem assigned_modify (clusters : List MutableCluster) (bi col : Nat) (f : Float → Float) (hbi : bi < clusters.length)
    (hnew : col ∉ assigned clusters) :
    (assigned (clusters.modify bi (fun cl => { columns := cl.columns.add col, totalEntropy := f cl.totalEntropy }))).Perm
      (assigned clusters ++ [col]) := by
  induction clusters generalizing bi with
  | nil => simp at hbi
  | cons c cs ih =>
    cases bi with
    | zero =>
      have hc : col ∉ c.columns.elems := fun h => hnew (by simp [assigned, h])
      simp only [List.modify_zero_cons, assigned, List.map_cons, List.flatten_cons, CSet.elems_add, hc, if_false]
      rw [List.append_assoc, List.append_assoc]
      exact List.Perm.append_left _ List.perm_append_comm
    | succ b =>
      have hcs : col ∉ assigned cs := fun h => hnew (by simp only [assigned, List.map_cons, List.flatten_cons, List.mem_append] at h ⊢; exact Or.inr h)
      have := ih b (by simpa using hbi) hcs
      simp only [List.modify_succ_cons, assigned, List.map_cons, List.flatten_cons] at this ⊢
      rw [List.append_assoc]
      exact List.Perm.append_left _ this

/-- placing a fresh column adds exactly that column -/
theorem placeColumn_assigned (w : Array Float) (clusters : List MutableCluster) (col : Nat) (choice : Option Nat)
    (hc : ∀ bi, choice = some bi → bi < clusters.length) (hnew : col ∉ assigned clusters) :
    (assigned (placeColumn w clusters col choice)).Perm (assigned clusters ++ [col]) := by
  cases choice with
  | none => simp [placeColumn, assigned_append, assigned, CSet.elems_singleton]
  | some bi => exact assigned_modify clusters bi col (fun t => t + w[col]!) (hc bi rfl) hnew

/-- every cluster stays non-empty, the clusters already there keep their position and only grow -/
theorem placeColumn_structure (w : Array Float) (clusters : List MutableCluster) (col : Nat) (choice : Option Nat) :
    clusters.length ≤ (placeColumn w clusters col choice).length ∧
    (∀ i (hi : i < clusters.length), ∃ hi' : i < (placeColumn w clusters col choice).length,
        ∀ x ∈ clusters[i].columns.elems, x ∈ ((placeColumn w clusters col choice)[i]'hi').columns.elems) ∧
    ((∀ c ∈ clusters, c.columns.elems ≠ []) → ∀ c ∈ placeColumn w clusters col choice, c.columns.elems ≠ []) := by
  cases choice with
  | none =>
    simp only [placeColumn]
    refine ⟨by simp, fun i hi => ⟨by simp; omega, by intro x hx; rw [List.getElem_append_left hi]; exact hx⟩, ?_⟩
    intro h c hc
    rcases List.mem_append.mp hc with hc | hc
    · exact h c hc
    · simp only [List.mem_singleton] at hc; subst hc; simp [CSet.elems_singleton]
  | some bi =>
    simp only [placeColumn]
    refine ⟨by simp, fun i hi => ⟨by simpa using hi, ?_⟩, ?_⟩
    · intro x hx
      rw [List.getElem_modify]
      split_ifs with h
      · simp only; rw [CSet.mem_add]; exact Or.inl hx
      · exact hx
    · intro h c hc
      rw [List.mem_iff_getElem] at hc
      obtain ⟨i, hi, rfl⟩ := hc
      rw [List.getElem_modify]
      have hi' : i < clusters.length := by simpa using hi
      split_ifs with hb
      · simp only
        intro he
        have : col ∈ (clusters[i].columns.add col).elems := by rw [CSet.mem_add]; exact Or.inr rfl
        rw [he] at this; simp at this
      · exact h _ (List.getElem_mem hi')

/-- The greedy pass places every column of the permutation exactly once, keeps the clusters that were there
(in place, only growing) and never produces an empty cluster. -/
theorem assignColumns_spec (ctx : ClusteringContext) (mw th : Float) (w : Array Float) :
    ∀ (cols : List Nat) (clusters : List MutableCluster), (assigned clusters ++ cols).Nodup →
      (∀ c ∈ clusters, c.columns.elems ≠ []) →
      (assigned (assignColumns ctx mw th w clusters cols)).Perm (assigned clusters ++ cols) ∧
      (∀ c ∈ assignColumns ctx mw th w clusters cols, c.columns.elems ≠ []) ∧
      clusters.length ≤ (assignColumns ctx mw th w clusters cols).length ∧
      (∀ i (hi : i < clusters.length), ∃ hi' : i < (assignColumns ctx mw th w clusters cols).length,
        ∀ x ∈ clusters[i].columns.elems, x ∈ ((assignColumns ctx mw th w clusters cols)[i]'hi').columns.elems) := by
  intro cols
  induction cols with
  | nil =>
    intro clusters _ hne
    simp only [assignColumns, List.append_nil]
    exact ⟨List.Perm.refl _, hne, le_refl _, fun i hi => ⟨hi, fun x hx => hx⟩⟩
  | cons col rest ih =>
    intro clusters hnd hne
    simp only [assignColumns]
    set choice := pickCluster ctx mw th w clusters col with hchoice
    have hnew : col ∉ assigned clusters := by
      intro hmem
      have := List.nodup_append.mp hnd
      exact this.2.2 col hmem col (by simp) rfl
    have hplace := placeColumn_assigned w clusters col choice
      (fun bi hbi => pickCluster_lt ctx mw th w clusters col bi (hchoice ▸ hbi)) hnew
    obtain ⟨s1, s2, s3⟩ := placeColumn_structure w clusters col choice
    have hnd' : (assigned (placeColumn w clusters col choice) ++ rest).Nodup := by
      have hp : (assigned (placeColumn w clusters col choice) ++ rest).Perm (assigned clusters ++ col :: rest) := by
        have := hplace.append_right rest
        simpa [List.append_assoc] using this
      exact hp.nodup_iff.mpr hnd
    obtain ⟨r1, r2, r3, r4⟩ := ih (placeColumn w clusters col choice) hnd' (s3 hne)
    refine ⟨?_, r2, le_trans s1 r3, ?_⟩
    · have := r1.trans (hplace.append_right rest)
      simpa [List.append_assoc] using this
    · intro i hi
      obtain ⟨hi1, h1⟩ := s2 i hi
      obtain ⟨hi2, h2⟩ := r4 i hi1
      exact ⟨hi2, fun x hx => h2 x (h1 x hx)⟩

/-! ### stitch columns -/

theorem mem_insertByKeyDesc {β : Type} (lt : β → β → Bool) (x y : β) (l : List β) :
    y ∈ insertByKeyDesc lt x l ↔ y = x ∨ y ∈ l := by
  induction l with
  | nil => simp [insertByKeyDesc]
  | cons z zs ih =>
    unfold insertByKeyDesc
    split_ifs
    · simp
    · simp only [List.mem_cons, ih]; tauto

theorem mem_sortDescStable {β : Type} (lt : β → β → Bool) (l : List β) (y : β) : y ∈ sortDescStable lt l ↔ y ∈ l := by
  unfold sortDescStable
  suffices h : ∀ acc : List β, y ∈ l.foldl (fun acc x => insertByKeyDesc lt x acc) acc ↔ y ∈ acc ∨ y ∈ l by simpa using h []
  induction l with
  | nil => intro acc; simp
  | cons x xs ih => intro acc; rw [List.foldl_cons, ih, mem_insertByKeyDesc]; simp only [List.mem_cons]; tauto

theorem stitchCandidates_mem (ctx : ClusteringContext) (available : CSet) (derived : List Nat) (x : Nat × Float × Float)
    (h : x ∈ stitchCandidates ctx available derived) : x.1 ∈ available.elems := by
  unfold stitchCandidates at h
  rw [mem_sortDescStable] at h
  simp only [List.mem_map] at h
  obtain ⟨cl, hcl, rfl⟩ := h
  exact (CSet.mem_toList available cl).mp hcl

theorem stitchCandidates_ne_nil (ctx : ClusteringContext) (available : CSet) (derived : List Nat)
    (h : available.elems ≠ []) : stitchCandidates ctx available derived ≠ [] := by
  obtain ⟨a, ha⟩ := List.exists_mem_of_ne_nil _ h
  have ha' : a ∈ available.toList := (CSet.mem_toList available a).mpr ha
  intro he
  have hm : (a, pySum (derived.map (fun cr => ctx.d a cr)) / Float.ofNat derived.length, pyMax (derived.map (fun cr => ctx.d a cr)))
      ∈ stitchCandidates ctx available derived := by
    unfold stitchCandidates
    rw [mem_sortDescStable]
    exact List.mem_map.mpr ⟨a, ha', rfl⟩
  rw [he] at hm; simp at hm

theorem stitchSet_mem (mw th : Float) (w : Array Float) (bestCol : Nat) (w0 : Float) (sorted : List (Nat × Float × Float)) :
    bestCol ∈ (stitchSet mw th w bestCol w0 sorted).elems ∧
    (∀ x ∈ (stitchSet mw th w bestCol w0 sorted).elems, x = bestCol ∨ ∃ y ∈ sorted, y.1 = x) ∧
    (stitchSet mw th w bestCol w0 sorted).elems.Nodup := by
  unfold stitchSet
  suffices h : ∀ (acc : CSet × Float), bestCol ∈ acc.1.elems → acc.1.elems.Nodup →
      (sorted.foldl (fun (acc : CSet × Float) (x : Nat × Float × Float) =>
        if x.1 != bestCol && x.2.2 >= th then
          if acc.2 + w[x.1]! <= mw then (acc.1.add x.1, acc.2 + w[x.1]!) else acc
        else acc) acc).1.elems.Nodup ∧
      bestCol ∈ (sorted.foldl (fun (acc : CSet × Float) (x : Nat × Float × Float) =>
        if x.1 != bestCol && x.2.2 >= th then
          if acc.2 + w[x.1]! <= mw then (acc.1.add x.1, acc.2 + w[x.1]!) else acc
        else acc) acc).1.elems ∧
      ∀ x ∈ (sorted.foldl (fun (acc : CSet × Float) (x : Nat × Float × Float) =>
        if x.1 != bestCol && x.2.2 >= th then
          if acc.2 + w[x.1]! <= mw then (acc.1.add x.1, acc.2 + w[x.1]!) else acc
        else acc) acc).1.elems, x ∈ acc.1.elems ∨ ∃ y ∈ sorted, y.1 = x by
    obtain ⟨h0, h1, h2⟩ := h (CSet.singleton bestCol, w0 + w[bestCol]!) (by simp [CSet.elems_singleton]) (by simp [CSet.elems_singleton])
    refine ⟨h1, fun x hx => ?_, h0⟩
    rcases h2 x hx with h3 | h3
    · left; simpa [CSet.elems_singleton] using h3
    · exact Or.inr h3
  induction sorted with
  | nil => intro acc hb hn; exact ⟨hn, hb, fun x hx => Or.inl hx⟩
  | cons y ys ih =>
    intro acc hb hn
    rw [List.foldl_cons]
    split_ifs with h1 h2
    · obtain ⟨p0, p1, p2⟩ := ih (acc.1.add y.1, acc.2 + w[y.1]!) (by simp only; rw [CSet.mem_add]; exact Or.inl hb) (CSet.nodup_add _ _ hn)
      refine ⟨p0, p1, fun x hx => ?_⟩
      rcases p2 x hx with h3 | ⟨z, hz, hz1⟩
      · simp only at h3; rw [CSet.mem_add] at h3
        rcases h3 with h3 | h3
        · exact Or.inl h3
        · exact Or.inr ⟨y, by simp, h3.symm⟩
      · exact Or.inr ⟨z, by simp [hz], hz1⟩
    · obtain ⟨p0, p1, p2⟩ := ih acc hb hn
      exact ⟨p0, p1, fun x hx => (p2 x hx).imp id (fun ⟨z, hz, hz1⟩ => ⟨z, by simp [hz], hz1⟩)⟩
    · obtain ⟨p0, p1, p2⟩ := ih acc hb hn
      exact ⟨p0, p1, fun x hx => (p2 x hx).imp id (fun ⟨z, hz, hz1⟩ => ⟨z, by simp [hz], hz1⟩)⟩

/-- what one derived cluster looks like -/
theorem stitchFor_spec (ctx : ClusteringContext) (mw th : Float) (w : Array Float) (available : CSet) (cluster : MutableCluster)
    (hav : available.elems ≠ []) (hmain : ∀ m, ctx.main = some m → m ∈ available.elems) :
    let r := stitchFor ctx mw th w available cluster
    r.1.derived = cluster.columns.toList ∧ r.1.stitch ≠ [] ∧ r.1.stitch.Nodup ∧ (∀ s ∈ r.1.stitch, s ∈ available.elems) ∧
    (∀ m, ctx.main = some m → m ∈ r.1.stitch) ∧
    (∀ x, x ∈ r.2.elems ↔ x ∈ available.elems ∨ x ∈ cluster.columns.elems) := by
  simp only [stitchFor]
  have hbest : bestStitchCol ctx (stitchCandidates ctx available cluster.columns.toList) ∈ available.elems := by
    unfold bestStitchCol
    cases hm : ctx.main with
    | some m => exact hmain m hm
    | none =>
      have hne := stitchCandidates_ne_nil ctx available cluster.columns.toList hav
      cases hsd : stitchCandidates ctx available cluster.columns.toList with
      | nil => exact absurd hsd hne
      | cons y ys =>
        simp only [List.headD_cons]
        exact stitchCandidates_mem ctx available cluster.columns.toList y (by rw [hsd]; simp)
  have hbm : ∀ m, ctx.main = some m → bestStitchCol ctx (stitchCandidates ctx available cluster.columns.toList) = m := by
    intro m hm; unfold bestStitchCol; rw [hm]
  generalize bestStitchCol ctx (stitchCandidates ctx available cluster.columns.toList) = bestCol at hbest hbm ⊢
  generalize (if DERIVED_COLS_RESERVED * mw > cluster.totalEntropy then DERIVED_COLS_RESERVED * mw else cluster.totalEntropy) = tw
  obtain ⟨m1, m2, m3⟩ := stitchSet_mem mw th w bestCol tw (stitchCandidates ctx available cluster.columns.toList)
  refine ⟨trivial, ?_, (CSet_toList_perm _).nodup_iff.mpr m3, ?_, ?_, ?_⟩
  · intro he
    have := (CSet.mem_toList _ bestCol).mpr m1
    rw [he] at this; simp at this
  · intro s hsm
    rcases m2 s ((CSet.mem_toList _ s).mp hsm) with rfl | ⟨y, hy, rfl⟩
    · exact hbest
    · exact stitchCandidates_mem ctx available cluster.columns.toList y hy
  · intro m hm
    rw [← hbm m hm]; exact (CSet.mem_toList _ bestCol).mpr m1
  · intro x
    rw [CSet.mem_update, CSet.mem_toList]

/-- the derived clusters of a plan, given the columns introduced before them -/
def DerivedOK (main : Option Nat) : List Nat → List DerivedCluster → Prop
  | _, [] => True
  | intro, dc :: rest =>
      dc.stitch ≠ [] ∧ dc.stitch.Nodup ∧ (∀ s ∈ dc.stitch, s ∈ intro) ∧ (∀ m, main = some m → m ∈ dc.stitch) ∧ dc.derived ≠ [] ∧
        DerivedOK main (intro ++ dc.derived) rest

theorem deriveClusters_spec (ctx : ClusteringContext) (mw th : Float) (w : Array Float) :
    ∀ (others : List MutableCluster) (available : CSet) (intro : List Nat),
      (∀ x, x ∈ available.elems ↔ x ∈ intro) → available.elems ≠ [] →
      (∀ m, ctx.main = some m → m ∈ available.elems) → (∀ c ∈ others, c.columns.elems ≠ []) →
      DerivedOK ctx.main intro (deriveClusters ctx mw th w available others) ∧
      ((deriveClusters ctx mw th w available others).map (·.derived)).flatten.Perm (assigned others) := by
  intro others
  induction others with
  | nil => intro available intro _ _ _ _; simp [deriveClusters, DerivedOK, assigned]
  | cons cl rest ih =>
    intro available intro hav hne hmain hcl
    obtain ⟨h1, h2, h2n, h3, h4, h5⟩ := stitchFor_spec ctx mw th w available cl hne hmain
    simp only [deriveClusters]
    have hclne : cl.columns.elems ≠ [] := hcl cl (by simp)
    have hder_ne : (stitchFor ctx mw th w available cl).1.derived ≠ [] := by
      rw [h1]; intro he
      obtain ⟨a, ha⟩ := List.exists_mem_of_ne_nil _ hclne
      have := (CSet.mem_toList cl.columns a).mpr ha
      rw [he] at this; simp at this
    have hrec := ih (stitchFor ctx mw th w available cl).2 (intro ++ (stitchFor ctx mw th w available cl).1.derived)
      (by intro x; rw [h5, h1, List.mem_append, hav, CSet.mem_toList])
      (by
        obtain ⟨a, ha⟩ := List.exists_mem_of_ne_nil _ hne
        intro he
        have : a ∈ (stitchFor ctx mw th w available cl).2.elems := (h5 a).mpr (Or.inl ha)
        rw [he] at this; simp at this)
      (fun m hm => (h5 m).mpr (Or.inl (hmain m hm)))
      (fun c hc => hcl c (by simp [hc]))
    refine ⟨⟨h2, h2n, fun s hs => (hav s).mp (h3 s hs), h4, hder_ne, hrec.1⟩, ?_⟩
    simp only [List.map_cons, List.flatten_cons, assigned]
    rw [h1]
    exact List.Perm.append (CSet_toList_perm _) hrec.2

theorem DerivedOK_congr (main : Option Nat) : ∀ (dcs : List DerivedCluster) (i1 i2 : List Nat), (∀ x, x ∈ i1 ↔ x ∈ i2) →
    DerivedOK main i1 dcs → DerivedOK main i2 dcs := by
  intro dcs
  induction dcs with
  | nil => intro _ _ _ _; trivial
  | cons dc rest ih =>
    intro i1 i2 h hd
    obtain ⟨a, b, c, d, e, f⟩ := hd
    exact ⟨a, b, fun s hs => (h s).mp (c s hs), d, e, ih _ _ (fun x => by simp only [List.mem_append, h x]) f⟩

/-! ### the annealing loop only ever handles permutations -/

theorem swapAt_perm (l : List Nat) (i j : Nat) (hi : i < l.length) (hj : j < l.length) (hij : i ≠ j) : (swapAt l i j).Perm l := by
  rw [List.perm_iff_count]
  intro b
  unfold swapAt
  have hx : l.getD i 0 = l[i] := by simp [List.getD_eq_getElem?_getD, hi]
  have hy : l.getD j 0 = l[j] := by simp [List.getD_eq_getElem?_getD, hj]
  rw [hx, hy]
  have hj' : j < (l.set i l[j]).length := by simpa using hj
  rw [List.count_set hj', List.count_set hi]
  have hget : (l.set i l[j])[j] = l[j] := by
    rw [List.getElem_set]; simp [hij]
  rw [hget]
  have hpos : (if l[i] == b then 1 else 0) ≤ l.count b := by
    split_ifs with h
    · simp only [beq_iff_eq] at h
      exact List.count_pos_iff.mpr (h ▸ List.getElem_mem hi)
    · exact Nat.zero_le _
  omega

theorem drawOther_ok (n i : Nat) : ∀ (fuel : Nat) (s s' : List (Draw Float)) (j : Nat),
    (drawOther n i fuel).run s = .ok (j, s') → (j : Int) ≤ (n : Int) - 1 ∧ i ≠ j := by
  intro fuel
  induction fuel with
  | zero => intro s s' j h; simp [drawOther, throw, throwThe, MonadExceptOf.throw, StateT.run, StateT.lift, bind, Except.bind] at h
  | succ f ih =>
    intro s s' j h
    unfold drawOther at h
    obtain ⟨k, s1, h1, h2⟩ := StateT_bind_ok _ _ s s' j h
    have hk := drawInt_ok _ _ s s1 k h1
    split_ifs at h2 with he
    · exact ih s1 s' j h2
    · obtain ⟨rfl, _⟩ := StateT_pure_ok _ _ _ _ h2
      exact ⟨hk.2.1, by simpa using he⟩

/-- the two solutions the annealer carries are permutations of the columns -/
def AnnealInv (n : Nat) (st : AnnealState) : Prop := st.current.Perm (List.range n) ∧ st.best.Perm (List.range n)

theorem annealStep_inv (evaluate : List Nat → Float) (n : Nat) (alpha : Float) (st st' : AnnealState) (s s' : List (Draw Float))
    (hinv : AnnealInv n st) (h : (annealStep evaluate n alpha st).run s = .ok (st', s')) : AnnealInv n st' := by
  unfold annealStep at h
  obtain ⟨i, s1, h1, h⟩ := StateT_bind_ok _ _ _ _ _ h
  obtain ⟨j, s2, h2, h⟩ := StateT_bind_ok _ _ _ _ _ h
  have hi := drawInt_ok _ _ _ _ _ h1
  have hj := drawOther_ok n i _ _ _ _ h2
  have hlen : st.current.length = n := by rw [hinv.1.length_eq]; simp
  have hswap : (swapAt st.current i j).Perm (List.range n) :=
    (swapAt_perm st.current i j (by omega) (by omega) hj.2).trans hinv.1
  obtain ⟨acc, s3, _, h⟩ := StateT_bind_ok _ _ _ _ _ h
  obtain ⟨rfl, _⟩ := StateT_pure_ok _ _ _ _ h
  unfold AnnealInv annealUpdate
  simp only
  cases acc <;> simp only [Bool.false_eq_true, if_false, if_true] <;> split_ifs <;>
    first | exact ⟨hswap, hswap⟩ | exact ⟨hswap, hinv.2⟩ | exact ⟨hinv.1, hinv.1⟩ | exact hinv

theorem annealLoop_inv (evaluate : List Nat → Float) (n : Nat) (alpha : Float) : ∀ (fuel : Nat) (st st' : AnnealState)
    (s s' : List (Draw Float)), AnnealInv n st → (annealLoop evaluate n alpha fuel st).run s = .ok (st', s') → AnnealInv n st' := by
  intro fuel
  induction fuel with
  | zero => intro st st' s s' _ h; simp [annealLoop, throw, throwThe, MonadExceptOf.throw, StateT.run, StateT.lift, bind, Except.bind] at h
  | succ f ih =>
    intro st st' s s' hinv h
    unfold annealLoop at h
    split_ifs at h with hc
    · obtain ⟨st1, s1, h1, h2⟩ := StateT_bind_ok _ _ _ _ _ h
      exact ih st1 st' s1 s' (annealStep_inv evaluate n alpha st st1 s s1 hinv h1) h2
    · obtain ⟨rfl, _⟩ := StateT_pure_ok _ _ _ _ h
      exact hinv
