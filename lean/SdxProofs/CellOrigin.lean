import Props.C11
set_option linter.unusedSectionVars false
set_option linter.unusedVariables false
/-!
# Where a generated cell comes from

`generate_microdata` run on a bucket list: every row comes from one bucket, every cell of the row from that bucket's range in the
cell's column, decoded by that column's convertor (`generateCell`). For a string column: a cell is a null, a mask
`prefix*index`, the string of a single-point range, or a string whose index is marked safe.
-/

section
variable {α : Type} [Field α] [LinearOrder α] [IsStrictOrderedRing α] [FloorRing α] [Inhabited α]

/-- the origin of a cell: some state from which `generateCell` on this range, convertor and null stand-in produced it -/
def CellFrom (E : Env α) (src : Ival α × Conv α × α) (cell : Cell α × α) : Prop :=
  ∃ s s', (generateCell E src.2.1 src.2.2 src.1).run s = .ok (cell, s')

/-- every row of the generated microdata is decoded, cell by cell, from the ranges of one of the buckets -/
theorem microdata_cells (E : Env α) (convs : List (Conv α)) (nullMaps : List α) (buckets : List (BCell α))
    (stream rest : List (Draw α)) (rows : List (List (Cell α × α)))
    (h : (generateMicrodata E convs nullMaps buckets).run stream = .ok (rows, rest)) :
    ∀ row ∈ rows, ∃ b ∈ buckets, List.Forall₂ (CellFrom E) (List.zip b.ivs (List.zip convs nullMaps)) row := by
  unfold generateMicrodata at h
  simp only [bind_pure_comp, StateT.run_map] at h
  cases hm : (buckets.mapM (bucketRows E convs nullMaps)).run stream with
  | error e => rw [hm] at h; simp [Functor.map, Except.map] at h
  | ok p =>
    obtain ⟨rs, s1⟩ := p
    rw [hm] at h
    simp only [Functor.map, Except.map, Except.ok.injEq, Prod.mk.injEq] at h
    obtain ⟨h1, _⟩ := h
    subst h1
    have hall := mapM_forall₂_of_ok (bucketRows E convs nullMaps)
      (fun b r => ∀ row ∈ r, List.Forall₂ (CellFrom E) (List.zip b.ivs (List.zip convs nullMaps)) row) buckets
      (by
        intro b _ s y s1' hb
        unfold bucketRows at hb
        have hrows := mapM_forall₂_of_ok (fun (_ : Unit) => generateRow E convs nullMaps b.ivs)
          (fun _ row => List.Forall₂ (CellFrom E) (List.zip b.ivs (List.zip convs nullMaps)) row) (List.replicate b.count.toNat ())
          (by
            intro u _ s2 row s3 hr
            unfold generateRow at hr
            exact mapM_forall₂_of_ok (fun (x : Ival α × Conv α × α) => generateCell E x.2.1 x.2.2 x.1) (CellFrom E) _
              (fun x _ s4 c s5 hc => ⟨s4, s5, hc⟩) s2 row s3 hr) s y s1' hb
        intro row hrow
        exact forall₂_right _ _ _ hrows row hrow) stream rs s1 hm
    intro row hrow
    rw [List.mem_flatten] at hrow
    obtain ⟨r, hr, hrow⟩ := hrow
    clear hm
    induction hall with
    | nil => simp at hr
    | @cons b r' bs rs' hab _ ih =>
      rcases List.mem_cons.mp hr with rfl | hr
      · exact ⟨b, by simp, hab row hrow⟩
      · obtain ⟨b', hb', hf⟩ := ih hr
        exact ⟨b', by simp [hb'], hf⟩

/-- a string cell: a mask, the string of a single-point range, or a string whose index is marked safe -/
theorem string_cell_origin (E : Env α) (vm : List String) (safe : List Nat) (nm : α) (iv : Ival α) (s s' : List (Draw α))
    (str : String) (f : α) (h : (generateCell E (.string vm safe) nm iv).run s = .ok ((.str str, f), s')) :
    (iv.isSing = true ∧ 0 ≤ (ScalarOps.trunc iv.lo : Int) ∧ vm[(ScalarOps.trunc iv.lo : Int).toNat]? = some str) ∨
    (∃ v ∈ safe, vm[v]? = some str) ∨
    (∃ pre v, str = pre ++ "*" ++ toString (v : Nat)) := by
  unfold generateCell at h
  split_ifs at h with hnull
  · simp only [pure, StateT.pure, StateT.run, Except.pure, Except.ok.injEq, Prod.mk.injEq] at h
    obtain ⟨⟨hc, _⟩, _⟩ := h
    cases hc
  · unfold fromInterval at h
    simp only at h
    split_ifs at h with hsing hneg
    · simp [throw, throwThe, MonadExceptOf.throw, StateT.lift, StateT.run, bind, Except.bind] at h
    · split at h
      · rename_i s0 hs0
        simp only [pure, StateT.pure, StateT.run, Except.pure, Except.ok.injEq, Prod.mk.injEq, Cell.str.injEq] at h
        obtain ⟨⟨rfl, _⟩, _⟩ := h
        exact Or.inl ⟨hsing, not_lt.mp hneg, hs0⟩
      · simp [throw, throwThe, MonadExceptOf.throw, StateT.lift, StateT.run, bind, Except.bind] at h
    · rcases C01_like vm safe iv s s' str f h with h1 | h2
      · exact Or.inr (Or.inl h1)
      · exact Or.inr (Or.inr h2)
where
  C01_like (vm : List String) (safe : List Nat) (iv : Ival α) (s s' : List (Draw α)) (str : String) (f : α)
      (h : (mapStringInterval vm safe iv).run s = .ok ((.str str, f), s')) :
      (∃ v ∈ safe, vm[v]? = some str) ∨ (∃ pre v, str = pre ++ "*" ++ toString (v : Nat)) := by
    obtain ⟨v, _, _, _, hc⟩ := C11_string_result vm safe iv s s' (.str str) f h
    rcases hc with ⟨hs, str', h1, h2⟩ | ⟨_, a, b, _, _, h3⟩
    · simp only [Cell.str.injEq] at h2; subst h2; exact Or.inl ⟨v, hs, h1⟩
    · simp only [Cell.str.injEq] at h3; exact Or.inr ⟨_, v, h3⟩

end
