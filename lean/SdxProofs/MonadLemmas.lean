import SdxModel.Microdata
import Mathlib.Data.List.Forall2
/-! `mapM` in the state-and-error monads of the model: a successful run returns one result per input. -/

theorem mapM_length_of_ok {σ ε β γ : Type} (f : β → StateT σ (Except ε) γ) :
    ∀ (l : List β) (s : σ) (r : List γ) (s' : σ), (l.mapM f).run s = .ok (r, s') → r.length = l.length := by
  intro l
  induction l with
  | nil =>
    intro s r s' h
    simp only [List.mapM_nil, StateT.run_pure, pure, Except.pure] at h
    cases h; rfl
  | cons x xs ih =>
    intro s r s' h
    simp only [List.mapM_cons, StateT.run_bind] at h
    cases hx : (f x).run s with
    | error e => rw [hx] at h; simp [bind, Except.bind] at h
    | ok p =>
      obtain ⟨y, s1⟩ := p
      rw [hx] at h
      simp only [bind, Except.bind] at h
      cases hxs : (xs.mapM f).run s1 with
      | error e =>
        rw [show (List.mapM f xs).run s1 = Except.error e from hxs] at h
        simp [StateT.run, pure, StateT.pure, Except.pure] at h
      | ok q =>
        obtain ⟨ys, s2⟩ := q
        rw [show (List.mapM f xs).run s1 = Except.ok (ys, s2) from hxs] at h
        simp only [StateT.run_pure, pure, Except.pure] at h
        cases h
        simp [ih s1 ys _ hxs]

/-- what holds of every single successful step holds pairwise of a successful `mapM` -/
theorem mapM_forall₂_of_ok {σ ε β γ : Type} (f : β → StateT σ (Except ε) γ) (P : β → γ → Prop) :
    ∀ (l : List β), (∀ x ∈ l, ∀ s y s1, (f x).run s = .ok (y, s1) → P x y) →
      ∀ (s : σ) (r : List γ) (s' : σ), (l.mapM f).run s = .ok (r, s') → List.Forall₂ P l r := by
  intro l
  induction l with
  | nil =>
    intro _ s r s' h
    simp only [List.mapM_nil, pure] at h
    cases h; exact List.Forall₂.nil
  | cons x xs ih =>
    intro hP s r s' h
    simp only [List.mapM_cons, StateT.run_bind] at h
    cases hx : (f x).run s with
    | error e => rw [hx] at h; simp [bind, Except.bind] at h
    | ok p =>
      obtain ⟨y, s1⟩ := p
      rw [hx] at h
      simp only [bind, Except.bind] at h
      cases hxs : (xs.mapM f).run s1 with
      | error e =>
        rw [show (List.mapM f xs).run s1 = Except.error e from hxs] at h
        simp [pure, StateT.pure, Except.pure] at h
      | ok q =>
        obtain ⟨ys, s2⟩ := q
        rw [show (List.mapM f xs).run s1 = Except.ok (ys, s2) from hxs] at h
        simp only [StateT.run_pure, pure, Except.pure] at h
        cases h
        exact List.Forall₂.cons (hP x (by simp) s y s1 hx)
          (ih (fun x' hx' => hP x' (by simp [hx'])) s1 ys _ hxs)

/-- a successful `randint` replay returns a value inside the requested bounds and consumes one recorded draw -/
theorem drawInt_ok {α : Type} (lo hi : Int) (s s' : List (Draw α)) (v : Nat) (h : (drawInt (α := α) lo hi).run s = .ok (v, s')) :
    lo ≤ (v : Int) ∧ (v : Int) ≤ hi ∧ s = .int v :: s' := by
  unfold drawInt at h
  by_cases hlt : hi < lo
  · simp [hlt, throw, throwThe, MonadExceptOf.throw, StateT.run, bind, StateT.bind, Except.bind, StateT.lift] at h
  · simp only [hlt, if_false] at h
    cases s with
    | nil => simp [get, getThe, MonadStateOf.get, StateT.get, StateT.run, bind, StateT.bind, Except.bind, throw, throwThe, MonadExceptOf.throw, StateT.lift, pure, Except.pure] at h
    | cons d rest =>
      cases d with
      | unit u => simp [get, getThe, MonadStateOf.get, StateT.get, StateT.run, bind, StateT.bind, Except.bind, throw, throwThe, MonadExceptOf.throw, StateT.lift, pure, Except.pure] at h
      | perm p => simp [get, getThe, MonadStateOf.get, StateT.get, StateT.run, bind, StateT.bind, Except.bind, throw, throwThe, MonadExceptOf.throw, StateT.lift, pure, Except.pure] at h
      | pick p => simp [get, getThe, MonadStateOf.get, StateT.get, StateT.run, bind, StateT.bind, Except.bind, throw, throwThe, MonadExceptOf.throw, StateT.lift, pure, Except.pure] at h
      | int m =>
        simp only [get, getThe, MonadStateOf.get, StateT.get, StateT.run, bind, StateT.bind, Except.bind, pure, Except.pure] at h
        by_cases hb : (decide ((m : Int) < lo) || decide (hi < (m : Int))) = true
        · simp [hb, throw, throwThe, MonadExceptOf.throw, StateT.lift, StateT.bind, bind, Except.bind] at h
        · simp [hb, StateT.bind, StateT.set, StateT.pure, bind, Except.bind, pure, Except.pure] at h
          obtain ⟨rfl, rfl⟩ := h
          simp only [Bool.or_eq_true, decide_eq_true_eq, not_or] at hb
          exact ⟨Int.not_lt.mp hb.1, Int.not_lt.mp hb.2, rfl⟩

/-- a successful bind decomposes into two successful steps -/
theorem StateT_bind_ok {σ ε β γ : Type} (x : StateT σ (Except ε) β) (f : β → StateT σ (Except ε) γ) (s s' : σ) (c : γ)
    (h : (x >>= f).run s = .ok (c, s')) : ∃ a s1, x.run s = .ok (a, s1) ∧ (f a).run s1 = .ok (c, s') := by
  simp only [StateT.run_bind] at h
  cases hx : x.run s with
  | error e => rw [hx] at h; simp [bind, Except.bind] at h
  | ok p =>
    obtain ⟨a, s1⟩ := p
    rw [hx] at h
    exact ⟨a, s1, rfl, by simpa [bind, Except.bind] using h⟩

theorem StateT_pure_ok {σ ε β : Type} (a b : β) (s s' : σ) (h : (pure a : StateT σ (Except ε) β).run s = .ok (b, s')) :
    a = b ∧ s = s' := by
  simp [pure, StateT.pure, Except.pure, StateT.run] at h
  exact h

theorem forall₂_right {β γ : Type} (Q : γ → Prop) (l : List β) (r : List γ) (h : List.Forall₂ (fun _ y => Q y) l r) : ∀ y ∈ r, Q y := by
  induction h with
  | nil => simp
  | cons hab _ ih => intro y hy; rcases List.mem_cons.mp hy with rfl | hy; exact hab; exact ih y hy
