import SdxProofs.StitchLemmas
import SdxProofs.Field
import Mathlib.Tactic.Linarith
import Mathlib.Tactic.Positivity
set_option linter.unusedSectionVars false
/-! Row count of a stitch with shared ownership (over an ordered field, balance threshold 7/10). -/

/-- both sides within a factor 0.7 of the result -/
def RowsBalanced (a b n : Nat) : Prop := 7 * max a b ≤ 10 * n ∧ 7 * n ≤ 10 * min a b
/-- C12's interval `[min(0.7·max(L,R), min(L,R)), max(min(L,R)/0.7, max(L,R))]` (in integers) -/
def WithinOwnerBounds (a b n : Nat) : Prop := (min a b ≤ n ∧ n ≤ max a b) ∨ RowsBalanced a b n

theorem RowsBalanced.add {a1 b1 n1 a2 b2 n2 : Nat} (h1 : RowsBalanced a1 b1 n1) (h2 : RowsBalanced a2 b2 n2) :
    RowsBalanced (a1 + a2) (b1 + b2) (n1 + n2) := by
  unfold RowsBalanced at *
  omega

section
variable {α : Type} [Field α] [LinearOrder α] [IsStrictOrderedRing α] [FloorRing α] [Inhabited α]
variable {β : Type} [Inhabited β]

theorem acceptable_iff (a b : Nat) : acceptableDistribution ((7 : α) / 10) a b = true ↔ 0 < min a b ∧ 7 * max a b ≤ 10 * min a b := by
  unfold acceptableDistribution
  simp only
  by_cases h0 : min a b = 0
  · simp [h0]
  · have hpos : 0 < min a b := Nat.pos_of_ne_zero h0
    have hmax : (0 : α) < ((max a b : Nat) : α) := by
      have : 0 < max a b := lt_of_lt_of_le hpos (le_trans (min_le_left a b) (le_max_left a b))
      exact_mod_cast this
    simp only [beq_iff_eq, h0, if_false, decide_eq_true_eq, ofInt_eq, Int.ofNat_eq_natCast, Int.cast_natCast]
    rw [le_div_iff₀ hmax]
    constructor
    · intro h
      refine ⟨hpos, ?_⟩
      have : (7 : α) * ((max a b : Nat) : α) ≤ 10 * ((min a b : Nat) : α) := by linarith
      exact_mod_cast this
    · rintro ⟨_, h⟩
      have : (7 : α) * ((max a b : Nat) : α) ≤ 10 * ((min a b : Nat) : α) := by exact_mod_cast h
      linarith

/-- the terminal merge with shared ownership produces `round((L+R)/2)` rows: between the two sizes -/
theorem mergeCount_shared_between (l r : Nat) (hl : 0 < l) (hr : 0 < r) :
    min l r ≤ mergeCount (α := α) .shared l r ∧ mergeCount (α := α) .shared l r ≤ max l r := by
  unfold mergeCount
  simp only [ofInt_eq, Int.ofNat_eq_natCast, Int.cast_natCast, Int.cast_ofNat]
  set x : α := ((l + r : Nat) : α) / 2 with hx
  have hrd : |((ScalarOps.roundHE x : Int) : α) - x| ≤ 1 / 2 := by
    rw [sroundHE_eq]
    have h1 := Int.floor_le x
    have h2 := Int.lt_floor_add_one x
    split_ifs with ha hb hc
    · rw [abs_le]; constructor <;> linarith
    · rw [abs_le]; push_cast; constructor <;> linarith
    · have : x - ⌊x⌋ = 1 / 2 := le_antisymm (not_lt.mp hb) (not_lt.mp ha)
      rw [abs_le]; constructor <;> linarith
    · have : x - ⌊x⌋ = 1 / 2 := le_antisymm (not_lt.mp hb) (not_lt.mp ha)
      rw [abs_le]; push_cast; constructor <;> linarith
  rw [abs_le] at hrd
  have hx2 : 2 * x = (l : α) + (r : α) := by rw [hx]; push_cast; ring
  -- the rounded value is an integer within 1/2 of (l+r)/2
  have hlo : (2 * (ScalarOps.roundHE x : Int) : Int) + 1 ≥ (l : Int) + r := by
    have : (2 : α) * ((ScalarOps.roundHE x : Int) : α) + 1 ≥ (l : α) + r := by linarith
    exact_mod_cast this
  have hhi : (2 * (ScalarOps.roundHE x : Int) : Int) ≤ (l : Int) + r + 1 := by
    have : (2 : α) * ((ScalarOps.roundHE x : Int) : α) ≤ (l : α) + r + 1 := by linarith
    exact_mod_cast this
  have hnn : 0 ≤ (ScalarOps.roundHE x : Int) := by omega
  constructor
  · have : ((min l r : Nat) : Int) ≤ (ScalarOps.roundHE x : Int) := by
      rcases le_total l r with h | h
      · rw [min_eq_left h]; omega
      · rw [min_eq_right h]; omega
    omega
  · have : (ScalarOps.roundHE x : Int) ≤ ((max l r : Nat) : Int) := by
      rcases le_total l r with h | h
      · rw [max_eq_right h]; omega
      · rw [max_eq_left h]; omega
    omega

end

section
variable {α : Type} [Field α] [LinearOrder α] [IsStrictOrderedRing α] [FloorRing α] [Inhabited α]
variable {β : Type} [Inhabited β]

theorem mergeMicrodata_length (c : StitchCtx α) (left right result : List (MRow β α)) (s s' : List (Draw α))
    (h : (mergeMicrodata c left right).run s = .ok (result, s')) :
    left ≠ [] ∧ right ≠ [] ∧ result.length = mergeCount (α := α) c.owner left.length right.length := by
  unfold mergeMicrodata at h
  by_cases he : (left.isEmpty || right.isEmpty) = true
  · simp [he, throw, throwThe, MonadExceptOf.throw, StateT.lift, StateT.run, bind, StateT.bind, Except.bind] at h
  · simp only [he, Bool.false_eq_true, if_false] at h
    simp only [Bool.or_eq_true, List.isEmpty_iff, not_or] at he
    obtain ⟨l1, s1, _, h⟩ := StateT_bind_ok _ _ _ _ _ h
    obtain ⟨l2, s2, _, h⟩ := StateT_bind_ok _ _ _ _ _ h
    obtain ⟨r1, s3, _, h⟩ := StateT_bind_ok _ _ _ _ _ h
    obtain ⟨r2, s4, _, h⟩ := StateT_bind_ok _ _ _ _ _ h
    obtain ⟨rfl, _⟩ := StateT_pure_ok _ _ _ _ h
    exact ⟨he.1, he.2, by simp⟩

/-- what the count of a shared-ownership stitch satisfies: within the owner bounds, and balanced if the pair was balanced -/
def CountOK (a b n : Nat) : Prop :=
  WithinOwnerBounds a b n ∧ ((0 < min a b ∧ 7 * max a b ≤ 10 * min a b) → RowsBalanced a b n)

theorem countOK_terminal (l r n : Nat) (hl : 0 < l) (hr : 0 < r) (h1 : min l r ≤ n) (h2 : n ≤ max l r) : CountOK l r n := by
  refine ⟨Or.inl ⟨h1, h2⟩, fun ⟨_, hb⟩ => ?_⟩
  unfold RowsBalanced; omega

theorem stitchRec_count (c : StitchCtx α) (hth : c.threshRel = (7 : α) / 10) (hown : c.owner = .shared) :
    ∀ (fuel : Nat) (st : StitchState α) (left right result : List (MRow β α)) (s s' : List (Draw α)),
      (stitchRec c fuel st left right).run s = .ok (result, s') → CountOK left.length right.length result.length := by
  intro fuel
  induction fuel with
  | zero => intro st left right result s s' h; simp [stitchRec, throw, throwThe, MonadExceptOf.throw, StateT.run, StateT.lift] at h
  | succ f ih =>
    intro st left right result s s' h
    unfold stitchRec at h
    by_cases h1 : (st.attempts == 0 || left.length == 1 || right.length == 1) = true
    · rw [if_pos h1] at h
      obtain ⟨hl, hr, hlen⟩ := mergeMicrodata_length c left right result s s' h
      rw [hown] at hlen
      have hl' : 0 < left.length := List.length_pos_of_ne_nil hl
      have hr' : 0 < right.length := List.length_pos_of_ne_nil hr
      obtain ⟨b1, b2⟩ := mergeCount_shared_between (α := α) left.length right.length hl' hr'
      rw [hlen]
      exact countOK_terminal _ _ _ hl' hr' b1 b2
    · rw [if_neg h1] at h
      by_cases h2 : canSplit c st = true
      · rw [if_pos h2] at h
        obtain ⟨pl, pr⟩ := presort_perm c st left right
        rw [← pl.length_eq, ← pr.length_eq]
        generalize (presort c st left right).1 = L at h ⊢
        generalize (presort c st left right).2 = R at h ⊢
        unfold stitchSplit at h
        simp only at h
        generalize hlsp : (max 0 (binarySearch L (c.leftIdx.getD st.nextSort 0) (st.intervals.getD st.nextSort default).middle (L.length + 2) 0 L.length)).toNat = lsp at h
        generalize hrsp : (max 0 (binarySearch R (c.rightIdx.getD st.nextSort 0) (st.intervals.getD st.nextSort default).middle (R.length + 2) 0 R.length)).toNat = rsp at h
        by_cases h3 : (acceptableDistribution c.threshRel (List.take lsp L).length (List.take rsp R).length &&
            acceptableDistribution c.threshRel (List.drop lsp L).length (List.drop rsp R).length) = true
        · rw [if_pos h3] at h
          obtain ⟨lower, s1, hlo, h⟩ := StateT_bind_ok _ _ _ _ _ h
          obtain ⟨upper, s2, hup, h⟩ := StateT_bind_ok _ _ _ _ _ h
          obtain ⟨rfl, _⟩ := StateT_pure_ok _ _ _ _ h
          rw [hth] at h3
          simp only [Bool.and_eq_true] at h3
          have a1 := (acceptable_iff (α := α) _ _).mp h3.1
          have a2 := (acceptable_iff (α := α) _ _).mp h3.2
          have c1 := (ih _ _ _ _ _ _ hlo).2 a1
          have c2 := (ih _ _ _ _ _ _ hup).2 a2
          have hsum := RowsBalanced.add c1 c2
          have hL : (List.take lsp L).length + (List.drop lsp L).length = L.length := by
            rw [← List.length_append, List.take_append_drop]
          have hR : (List.take rsp R).length + (List.drop rsp R).length = R.length := by
            rw [← List.length_append, List.take_append_drop]
          rw [hL, hR] at hsum
          rw [List.length_append]
          exact ⟨Or.inr hsum, fun _ => hsum⟩
        · rw [if_neg h3] at h
          exact ih _ _ _ _ _ _ h
      · rw [if_neg h2] at h
        exact ih _ _ _ _ _ _ h

end
