import SdxProofs.StitchLemmas
import SdxModel.Sample
set_option linter.unusedSectionVars false
set_option linter.unusedVariables false
/-!
# `build_table` across clusters: what stitching and patching keep

A table is *well-typed for* a predicate `P column cell` when each of its rows has one cell per column and the cell in the
place of column `j` satisfies `P j`. Stitching and patching only recombine cells of rows of their two inputs, each cell staying
under its own column (`_locate_columns` indexes each side by the column's position in that side's combination), so
well-typedness goes through `_do_stitch` / `_do_patch` and, by induction over the derived clusters, through the whole
`build_table`.  Patching and left-owned stitching also keep the number of rows of the table so far.
-/

section
variable {α : Type} [Add α] [Sub α] [Mul α] [Div α] [LT α] [LE α] [BEq α]
  [DecidableLT α] [DecidableLE α] [ScalarOps α] [Inhabited α]
variable {β : Type} [Inhabited β]

/-- every row has one cell per column, and the cell standing for column `j` satisfies `P j` -/
def TableOK (P : Nat → β × α → Prop) (t : MTable β α) : Prop :=
  ∀ row ∈ t.1, row.length = t.2.length ∧ ∀ (k : Nat) (hk : k < t.2.length), P t.2[k] (row.getD k default)

def RowOK (P : Nat → β × α → Prop) (comb : List Nat) (row : MRow β α) : Prop :=
  row.length = comb.length ∧ ∀ (k : Nat) (hk : k < comb.length), P comb[k] (row.getD k default)

/-- `_locate_columns` indexes a column by its position in each side's combination -/
theorem locateColumns_loc (lc rc : List Nat) (c : ColumnLocation) (hc : c ∈ locateColumns lc rc) :
    (c.source = .left → ∃ i, c.leftIndex = some i ∧ ∃ h : i < lc.length, lc[i] = c.columnId) ∧
    (c.source = .right → ∃ i, c.rightIndex = some i ∧ ∃ h : i < rc.length, rc[i] = c.columnId) ∧
    (c.source = .shared → (∃ i, c.leftIndex = some i ∧ ∃ h : i < lc.length, lc[i] = c.columnId) ∧
      ∃ i, c.rightIndex = some i ∧ ∃ h : i < rc.length, rc[i] = c.columnId) := by
  unfold locateColumns at hc
  simp only at hc
  rw [(sortAscStable_perm _ _).mem_iff] at hc
  obtain ⟨x, hx, rfl⟩ := List.mem_map.mp hc
  have hx' : x ∈ lc ∨ x ∈ rc := by simpa using hx
  cases hl : lc.idxOf? x with
  | none =>
    have hnl : x ∉ lc := by
      intro hm
      have := List.idxOf?_eq_none_iff.mp hl
      exact this hm
    have hr : x ∈ rc := hx'.resolve_left hnl
    cases hr' : rc.idxOf? x with
    | none => exact absurd hr (List.idxOf?_eq_none_iff.mp hr')
    | some i =>
      obtain ⟨hi, hv, _⟩ := List.idxOf?_eq_some_iff.mp hr'
      exact ⟨by simp, fun _ => ⟨i, rfl, hi, hv⟩, by simp⟩
  | some i =>
    obtain ⟨hi, hv, _⟩ := List.idxOf?_eq_some_iff.mp hl
    cases hr' : rc.idxOf? x with
    | none =>
      exact ⟨fun _ => ⟨i, rfl, hi, hv⟩, by simp, by simp⟩
    | some k =>
      obtain ⟨hk, hkv, _⟩ := List.idxOf?_eq_some_iff.mp hr'
      exact ⟨by simp, by simp, fun _ => ⟨⟨i, rfl, hi, hv⟩, ⟨k, rfl, hk, hkv⟩⟩⟩

/-- a merged row is well-typed for the located columns when both of its source rows are -/
theorem mergeRow_ok (P : Nat → β × α → Prop) (lc rc : List Nat) (pick : Bool) (l r : MRow β α)
    (hl : RowOK P lc l) (hr : RowOK P rc r) :
    RowOK P ((locateColumns lc rc).map (·.columnId)) (mergeRow (locateColumns lc rc) pick l r) := by
  refine ⟨by simp [mergeRow], fun k hk => ?_⟩
  have hk' : k < (locateColumns lc rc).length := by simpa using hk
  have hmem : (locateColumns lc rc)[k] ∈ locateColumns lc rc := List.getElem_mem hk'
  obtain ⟨hL, hR, hS⟩ := locateColumns_loc lc rc _ hmem
  have hget : (mergeRow (locateColumns lc rc) pick l r).getD k default =
      (match (locateColumns lc rc)[k].source with
       | .left => l.getD ((locateColumns lc rc)[k].leftIndex.getD 0) default
       | .right => r.getD ((locateColumns lc rc)[k].rightIndex.getD 0) default
       | .shared => if pick then l.getD ((locateColumns lc rc)[k].leftIndex.getD 0) default
                    else r.getD ((locateColumns lc rc)[k].rightIndex.getD 0) default) := by
    simp only [mergeRow, List.getD_eq_getElem?_getD, List.getElem?_map, List.getElem?_eq_getElem hk', Option.map_some,
      Option.getD_some]
    cases (locateColumns lc rc)[k].source <;> rfl
  rw [hget]
  simp only [List.getElem_map]
  have fromL : ∀ i, (locateColumns lc rc)[k].leftIndex = some i → (∃ h : i < lc.length, lc[i] = (locateColumns lc rc)[k].columnId) →
      P (locateColumns lc rc)[k].columnId (l.getD ((locateColumns lc rc)[k].leftIndex.getD 0) default) := by
    intro i hi ⟨h1, h2⟩
    rw [hi, Option.getD_some, ← h2]
    exact hl.2 i h1
  have fromR : ∀ i, (locateColumns lc rc)[k].rightIndex = some i → (∃ h : i < rc.length, rc[i] = (locateColumns lc rc)[k].columnId) →
      P (locateColumns lc rc)[k].columnId (r.getD ((locateColumns lc rc)[k].rightIndex.getD 0) default) := by
    intro i hi ⟨h1, h2⟩
    rw [hi, Option.getD_some, ← h2]
    exact hr.2 i h1
  cases hs : (locateColumns lc rc)[k].source with
  | left =>
    obtain ⟨i, hi, hh⟩ := hL hs
    exact fromL i hi hh
  | right =>
    obtain ⟨i, hi, hh⟩ := hR hs
    exact fromR i hi hh
  | shared =>
    obtain ⟨⟨i, hi, hh⟩, ⟨j, hj, hh'⟩⟩ := hS hs
    cases pick
    · simpa using fromR j hj hh'
    · simpa using fromL i hi hh

theorem TableOK_iff (P : Nat → β × α → Prop) (t : MTable β α) : TableOK P t ↔ ∀ row ∈ t.1, RowOK P t.2 row := Iff.rfl

/-- patching keeps well-typedness and the rows of the left table -/
theorem doPatch_ok (P : Nat → β × α → Prop) (left right res : MTable β α) (s s' : List (Draw α))
    (hl : TableOK P left) (hr : TableOK P right) (h : (doPatch left right).run s = .ok (res, s')) :
    TableOK P res ∧ res.1.length = left.1.length := by
  obtain ⟨rs, hlen, hmem, hres, hcols⟩ := doPatch_spec left right res s s' h
  refine ⟨?_, ?_⟩
  · intro row hrow
    rw [hres] at hrow
    obtain ⟨p, hp, rfl⟩ := List.mem_map.mp hrow
    have := mergeRow_ok P left.2 right.2 true p.1 p.2 (hl p.1 (List.of_mem_zip hp).1) (hr p.2 (hmem p.2 (List.of_mem_zip hp).2))
    rw [hcols]
    exact this
  · rw [hres]; simp [hlen]

end

section
variable {α : Type} [Add α] [Sub α] [Mul α] [Div α] [LT α] [LE α] [BEq α]
  [DecidableLT α] [DecidableLE α] [ScalarOps α] [Inhabited α]
variable {β : Type} [Inhabited β]

/-- what a successful `_do_stitch` returns (T12.a/b restated for use here) -/
theorem doStitch_spec' (snapped : List (Ival α)) (isIntegral : List Bool) (entropy : List α) (threshRel : α)
    (left right res : MTable β α) (dc : DerivedCluster) (s s' : List (Draw α))
    (h : (doStitch snapped isIntegral entropy threshRel left right dc).run s = .ok (res, s')) :
    res.2 = (locateColumns left.2 right.2).map (·.columnId) ∧
      ((res.1 = [] ∧ left.1 = [] ∧ right.1 = []) ∨ StitchedFrom (locateColumns left.2 right.2) dc.owner left.1 right.1 res.1) := by
  unfold doStitch at h
  by_cases h0 : (left.2.isEmpty || dc.stitch.isEmpty || dc.derived.isEmpty) = true
  · simp [h0, throw, throwThe, MonadExceptOf.throw, StateT.lift, StateT.run, bind, StateT.bind, Except.bind] at h
  · simp only [h0, Bool.false_eq_true, if_false] at h
    by_cases h1 : (left.1.isEmpty && right.1.isEmpty) = true
    · simp only [h1, if_true] at h
      obtain ⟨rfl, _⟩ := StateT_pure_ok _ _ _ _ h
      simp only [Bool.and_eq_true, List.isEmpty_iff] at h1
      exact ⟨rfl, Or.inl ⟨rfl, h1.1, h1.2⟩⟩
    · simp only [h1, Bool.false_eq_true, if_false] at h
      by_cases h2 : right.1.isEmpty = true
      · simp [h2, throw, throwThe, MonadExceptOf.throw, StateT.lift, StateT.run, bind, StateT.bind, Except.bind] at h
      · simp only [h2, Bool.false_eq_true, if_false] at h
        split at h
        · obtain ⟨rows, s1, hr', h⟩ := StateT_bind_ok _ _ _ _ _ h
          obtain ⟨rfl, _⟩ := StateT_pure_ok _ _ _ _ h
          exact ⟨rfl, Or.inr (stitchRec_spec _ _ _ _ _ _ _ _ hr')⟩
        · simp [throw, throwThe, MonadExceptOf.throw, StateT.lift, StateT.run] at h

/-- with the left side as owner a stitch keeps the number of left rows -/
theorem doStitch_rows (snapped : List (Ival α)) (isIntegral : List Bool) (entropy : List α) (threshRel : α)
    (left right res : MTable β α) (dc : DerivedCluster) (s s' : List (Draw α)) (ho : dc.owner = .left)
    (h : (doStitch snapped isIntegral entropy threshRel left right dc).run s = .ok (res, s')) :
    res.1.length = left.1.length := by
  obtain ⟨_, hrows⟩ := doStitch_spec' snapped isIntegral entropy threshRel left right res dc s s' h
  rcases hrows with ⟨h1, h2, _⟩ | ⟨pairs, hres, hmem, hown⟩
  · rw [h1, h2]
  · have := (hown ho).1.length_eq
    rw [hres]
    simpa using this

/-- stitching keeps well-typedness -/
theorem doStitch_ok (P : Nat → β × α → Prop) (snapped : List (Ival α)) (isIntegral : List Bool) (entropy : List α) (threshRel : α)
    (left right res : MTable β α) (dc : DerivedCluster) (s s' : List (Draw α))
    (hl : TableOK P left) (hr : TableOK P right)
    (h : (doStitch snapped isIntegral entropy threshRel left right dc).run s = .ok (res, s')) :
    TableOK P res := by
  obtain ⟨hcols, hrows⟩ := doStitch_spec' snapped isIntegral entropy threshRel left right res dc s s' h
  rcases hrows with ⟨h1, h2, _⟩ | ⟨pairs, hres, hmem, hown⟩
  · intro row hrow
    rw [h1] at hrow
    cases hrow
  · intro row hrow
    rw [hres] at hrow
    obtain ⟨t, ht, rfl⟩ := List.mem_map.mp hrow
    have := mergeRow_ok P left.2 right.2 t.2.2 t.1 t.2.1 (hl t.1 (hmem t ht).1) (hr t.2.1 (hmem t ht).2)
    rw [hcols]
    exact this

/-- the tables `materialize_tree` hands to `build_table`, for the column lists `Q` singles out (the clusters of the plan at hand), are
well-typed for `P`: an assumption of the composed theorems, discharged for concrete `P` from the one-cluster theorems -/
def MaterializeOKFor (E : Env α) (F : Forest α) (convs : List (Conv α)) (Q : List Nat → Prop) (P : Nat → Cell α × α → Prop) : Prop :=
  ∀ (cols : List Nat), Q cols → ∀ (streams : List Nat × List (Draw α)) (s s' : List (Draw α)) (res : MTable (Cell α) α),
    (materializeGM E F convs cols streams).run s = .ok (res, s') → TableOK P res

/-- for every non-empty column list -/
def MaterializeOK (E : Env α) (F : Forest α) (convs : List (Conv α)) (P : Nat → Cell α × α → Prop) : Prop :=
  MaterializeOKFor E F convs (fun cols => 1 ≤ cols.length) P

/-- **`build_table`, cells, for the clusters of a plan.**  If the microtable of every cluster of the plan (`Q` holds of the initial cluster
and of `stitch ++ derived` of every derived cluster) is well-typed for `P`, so is the table `build_table` assembles. -/
theorem buildTable_cells_for (E : Env α) (F : Forest α) (convs : List (Conv α)) (isIntegral : List Bool) (entropy : List α)
    (threshRel : α) (cl : Clusters) (streams : List (List Nat × List (Draw α))) (s s' : List (Draw α))
    (res : MTable (Cell α) α) (Q : List Nat → Prop) (P : Nat → Cell α × α → Prop)
    (hini : Q cl.initial) (hder : ∀ dc ∈ cl.derivedClusters, Q (dc.stitch ++ dc.derived))
    (hM : MaterializeOKFor E F convs Q P)
    (h : (buildTable E F convs isIntegral entropy threshRel cl streams).run s = .ok (res, s')) :
    TableOK P res := by
  unfold buildTable at h
  obtain ⟨acc0, s0, h0, h⟩ := StateT_bind_ok _ _ _ _ _ h
  have hinit := hM _ hini _ _ _ _ h0
  have key : ∀ (l : List (DerivedCluster × Nat)) (acc : MTable (Cell α) α) (s1 s2 : List (Draw α)) (r : MTable (Cell α) α),
      (∀ p ∈ l, Q (p.1.stitch ++ p.1.derived)) → TableOK P acc →
      (l.foldlM (fun acc (p : DerivedCluster × Nat) => do
        let right ← materializeGM E F convs (p.1.stitch ++ p.1.derived) (streams.getD (p.2 + 1) ([], []))
        if p.1.stitch.isEmpty then doPatch acc right
        else doStitch F.snapped isIntegral entropy threshRel acc right p.1) acc).run s1 = .ok (r, s2) →
      TableOK P r := by
    intro l
    induction l with
    | nil =>
      intro acc s1 s2 r _ hacc hr
      simp only [List.foldlM_nil] at hr
      obtain ⟨rfl, _⟩ := StateT_pure_ok _ _ _ _ hr
      exact hacc
    | cons p rest ih =>
      intro acc s1 s2 r hl hacc hr
      rw [List.foldlM_cons] at hr
      obtain ⟨acc1, s3, hstep, hr⟩ := StateT_bind_ok _ _ _ _ _ hr
      obtain ⟨right, s4, hm, hstep⟩ := StateT_bind_ok _ _ _ _ _ hstep
      have hright := hM _ (hl p (List.mem_cons_self ..)) _ _ _ _ hm
      have hacc1 : TableOK P acc1 := by
        split_ifs at hstep
        · exact (doPatch_ok P acc right acc1 _ _ hacc hright hstep).1
        · exact doStitch_ok P _ _ _ _ acc right acc1 p.1 _ _ hacc hright hstep
      exact ih acc1 s3 s2 r (fun q hq => hl q (List.mem_cons_of_mem _ hq)) hacc1 hr
  refine key _ acc0 s0 s' res ?_ hinit h
  intro p hp
  exact hder p.1 (List.of_mem_zip hp).1

/-- **`build_table`, cells.**  Whatever the plan (non-empty clusters) and the RNG streams, if every microtable is well-typed for
`P`, so is the table `build_table` assembles: every cell of the synthetic table is, under its own column, a cell of some cluster's
microtable. -/
theorem buildTable_cells (E : Env α) (F : Forest α) (convs : List (Conv α)) (isIntegral : List Bool) (entropy : List α)
    (threshRel : α) (cl : Clusters) (streams : List (List Nat × List (Draw α))) (s s' : List (Draw α))
    (res : MTable (Cell α) α) (P : Nat → Cell α × α → Prop)
    (hini : 1 ≤ cl.initial.length) (hder : ∀ dc ∈ cl.derivedClusters, 1 ≤ dc.derived.length)
    (hM : MaterializeOK E F convs P)
    (h : (buildTable E F convs isIntegral entropy threshRel cl streams).run s = .ok (res, s')) :
    TableOK P res :=
  buildTable_cells_for E F convs isIntegral entropy threshRel cl streams s s' res (fun cols => 1 ≤ cols.length) P hini
    (fun dc hdc => by have := hder dc hdc; simp only [List.length_append]; omega) hM h

/-- **`build_table`, rows.**  When every derived cluster is patched in (no stitch columns: `NoClustering`) or stitched with the
left side as owner, the assembled table has exactly as many rows as the microtable of the initial cluster. -/
theorem buildTable_rows (E : Env α) (F : Forest α) (convs : List (Conv α)) (isIntegral : List Bool) (entropy : List α)
    (threshRel : α) (cl : Clusters) (streams : List (List Nat × List (Draw α))) (s s' : List (Draw α))
    (res : MTable (Cell α) α)
    (hown : ∀ dc ∈ cl.derivedClusters, dc.stitch = [] ∨ dc.owner = .left)
    (h : (buildTable E F convs isIntegral entropy threshRel cl streams).run s = .ok (res, s')) :
    ∃ (init : MTable (Cell α) α) (s0 : List (Draw α)),
      (materializeGM E F convs cl.initial (streams.getD 0 ([], []))).run s = .ok (init, s0) ∧ res.1.length = init.1.length := by
  unfold buildTable at h
  obtain ⟨acc0, s0, h0, h⟩ := StateT_bind_ok _ _ _ _ _ h
  refine ⟨acc0, s0, h0, ?_⟩
  have key : ∀ (l : List (DerivedCluster × Nat)) (acc : MTable (Cell α) α) (s1 s2 : List (Draw α)) (r : MTable (Cell α) α),
      (∀ p ∈ l, p.1.stitch = [] ∨ p.1.owner = .left) →
      (l.foldlM (fun acc (p : DerivedCluster × Nat) => do
        let right ← materializeGM E F convs (p.1.stitch ++ p.1.derived) (streams.getD (p.2 + 1) ([], []))
        if p.1.stitch.isEmpty then doPatch acc right
        else doStitch F.snapped isIntegral entropy threshRel acc right p.1) acc).run s1 = .ok (r, s2) →
      r.1.length = acc.1.length := by
    intro l
    induction l with
    | nil =>
      intro acc s1 s2 r _ hr
      simp only [List.foldlM_nil] at hr
      obtain ⟨rfl, _⟩ := StateT_pure_ok _ _ _ _ hr
      rfl
    | cons p rest ih =>
      intro acc s1 s2 r hl hr
      rw [List.foldlM_cons] at hr
      obtain ⟨acc1, s3, hstep, hr⟩ := StateT_bind_ok _ _ _ _ _ hr
      obtain ⟨right, s4, hm, hstep⟩ := StateT_bind_ok _ _ _ _ _ hstep
      have hacc1 : acc1.1.length = acc.1.length := by
        split_ifs at hstep with he
        · obtain ⟨rs, hlen, _, hres, _⟩ := doPatch_spec acc right acc1 _ _ hstep
          rw [hres]; simp [hlen]
        · have ho : p.1.owner = .left := by
            rcases hl p (List.mem_cons_self ..) with h1 | h1
            · exact absurd (by simp [h1]) he
            · exact h1
          exact doStitch_rows _ _ _ _ acc right acc1 p.1 _ _ ho hstep
      rw [ih acc1 s3 s2 r (fun q hq => hl q (List.mem_cons_of_mem _ hq)) hr, hacc1]
  refine key _ acc0 s0 s' res ?_ h
  intro p hp
  exact hown p.1 (List.of_mem_zip hp).1

end

section
variable {α : Type} [Add α] [Sub α] [Mul α] [Div α] [LT α] [LE α] [BEq α]
  [DecidableLT α] [DecidableLE α] [ScalarOps α] [Inhabited α]

/-- what `materialize_tree`, as `build_table` calls it, returns: the microtable of the sorted column combination -/
theorem materializeGM_tree (E : Env α) (F : Forest α) (convs : List (Conv α)) (cols : List Nat)
    (streams : List Nat × List (Draw α)) (s s' : List (Draw α)) (res : MTable (Cell α) α)
    (h : (materializeGM E F convs cols streams).run s = .ok (res, s')) :
    res.2 = sortAscStable (fun a b => decide (a < b)) cols ∧
    ∃ drawn left, materializeTree E F convs (sortAscStable (fun a b => decide (a < b)) cols) streams.1 streams.2 = .ok (res.1, drawn, left) := by
  unfold materializeGM at h
  obtain ⟨u1, s1, _, h⟩ := StateT_bind_ok _ _ _ _ _ h
  obtain ⟨u2, s2, _, h⟩ := StateT_bind_ok _ _ _ _ _ h
  simp only at h
  split at h
  · simp [throw, throwThe, MonadExceptOf.throw, StateT.lift, StateT.run, bind, Except.bind] at h
  · rename_i rows drawn left hm
    obtain ⟨rfl, _⟩ := StateT_pure_ok _ _ _ _ h
    exact ⟨rfl, drawn, left, hm⟩

theorem sortAscStable_length {γ : Type} (lt : γ → γ → Bool) (l : List γ) : (sortAscStable lt l).length = l.length :=
  (sortAscStable_perm lt l).length_eq

end
