import Props.C02
import Props.C03
import Props.C04
import Props.C17
import Props.C18
import Props.C10
import Props.C11
import Props.C01
